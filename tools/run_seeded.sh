#!/bin/sh
# tools/run_seeded.sh [pattern]  - runs every seeded change matching pattern against the checks named in its meta.json
here=$(cd "$(dirname "$0")/.." && pwd)
for d in "$here"/seeded/${1:-*}/; do
  [ -f "$d/patch.diff" ] || continue
  props=$(python3 -c "import json,sys; print(' '.join(json.load(open('$d/meta.json')).get('breaks',[])))" 2>/dev/null)
  for p in $props; do
    "$here/tools/try_seeded.sh" "$d" "$p" quick
  done
done
