#!/bin/sh
# tools/try_seeded.sh <seeded-dir> <prop> [tier]
# Applies <seeded-dir>/patch.diff to a scratch copy of /repo (never to /repo
# itself), confirms that the copy builds and passes the unedited test suite,
# runs ./check <prop> against the copy and prints DETECTED / MISSED.
# Evidence and replay files of the trial go to a scratch directory.
set -u
export GOFLAGS=-mod=mod GOPROXY=off GOSUMDB=off GOTOOLCHAIN=local
here=$(cd "$(dirname "$0")/.." && pwd)
dir=$(cd "$1" && pwd); prop=$2; tier=${3:-quick}
name=$(basename "$dir")
work=/var/tmp/xpmut.$name.$prop.$$
rm -rf "$work"; mkdir -p "$work/repo" "$work/ev" "$work/rp"
(cd /repo && git archive HEAD) | tar -x -C "$work/repo"
if ! (cd "$work/repo" && git init -q . 2>/dev/null && git apply "$dir/patch.diff") ; then
  # the patch may have been made against the pinned (pre-fix) tree
  echo "$name: patch does not apply to HEAD" ; rm -rf "$work"; exit 3
fi
rm -rf "$work/repo/.git"
if ! (cd "$work/repo" && go build ./... && go test -vet=off -count=1 ./... >/dev/null 2>&1); then
  echo "$name: build or baseline tests FAIL with the patch (not a valid seeded change)"; rm -rf "$work"; exit 4
fi
start=$(date +%s)
VERIF_REPO="$work/repo" VERIF_EVIDENCE_DIR="$work/ev" VERIF_REPLAY_DIR="$work/rp" VERIF_SCRATCH="$work/scratch" "$here/check" "$prop" "$tier" > "$work/out.txt" 2>&1
code=$?
end=$(date +%s)
case $code in
  1) echo "$name $prop $tier: DETECTED in $((end-start))s: $(grep -m1 '^violation:' "$work/out.txt")" ;;
  0) echo "$name $prop $tier: MISSED ($((end-start))s)" ;;
  *) echo "$name $prop $tier: INFRA exit=$code: $(tail -3 "$work/out.txt" | tr '\n' ' ')" ;;
esac
if [ -n "${KEEP_OUT:-}" ]; then cp "$work/out.txt" "$KEEP_OUT"; cp "$work"/rp/*.json "$(dirname "$KEEP_OUT")"/ 2>/dev/null; fi
rm -rf "$work"
exit $code
