#!/usr/bin/env python3
"""tools/selftest_reach.py : after `./check <prop> quick` for all four properties, verifies from the evidence files
that every fault kind and reach probe the design relies on actually fired (a probe stuck at zero means the workload
or the fault mix no longer reaches that behaviour). Exit 1 if one is at zero."""
import json, sys
need = {
 'C04': {'faults_fired': ['abandon', 'nav-panic', 'interleave', 'cache-swap', 'extra-movenext', 'tiny-cap'], 'probes': ['interleaved_handles', 'pristine_process_references']},
 'C05': {'faults_fired': ['preempt', 'nav-panic', 'tiny-cap'], 'probes': ['two_tasks_in_same_object', 'cache_resets', 'pristine_process_references'],
         'yield_points_by_kind': ['nav', 'lock', 'pool', 'enter', 'op']},
 'C12': {'faults_fired': ['abandon', 'interleave', 'wander', 'extra-movenext'], 'probes': ['movenext_after_false', 'relations_checked', 'relations_on_2plus_nodes', 'flat_order_checked_2plus', 'handle_advanced_on_2plus']},
 'C16': {'faults_fired': ['load-error', 'cache-swap', 'tiny-cap', 'preempt'], 'probes': ['cache_resets', 'cache_at_exact_cap', 'window_overlap_same_key', 'window_overlap_diff_key', 'two_tasks_in_same_object'],
         'yield_points_by_kind': ['lock', 'load', 'enter']},
}
bad = 0
for prop, groups in need.items():
    cov = json.load(open('/verif/evidence/%s.json' % prop))['coverage']
    for grp, keys in groups.items():
        for k in keys:
            v = cov.get(grp, {}).get(k, 0)
            if not v:
                print('STUCK AT ZERO: %s %s.%s' % (prop, grp, k)); bad += 1
    print('%s: %d runs, %d non-trivial, functions entered %s/%s' % (prop, cov['evaluations'], cov['distinct_nontrivial'], cov.get('package_functions_entered'), cov.get('package_functions_instrumented')))
sys.exit(1 if bad else 0)
