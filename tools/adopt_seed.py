#!/usr/bin/env python3
"""tools/adopt_seed.py <src-dir> <prop> <needs...>: copies a verified sub-agent change into /verif/seeded/<name>/ with meta.json"""
import sys, os, shutil, json
src, prop, needs = sys.argv[1], sys.argv[2], ' '.join(sys.argv[3:])
name = os.path.basename(src.rstrip('/'))
dst = '/verif/seeded/' + name
if os.path.exists(dst):
    name += '-w2'; dst = '/verif/seeded/' + name
os.makedirs(dst)
for f in ['patch.diff', 'demo_test.go', 'notes.md']:
    shutil.copy(os.path.join(src, f), os.path.join(dst, f))
meta = dict(id=name, author='independent sub-agent, later wave (given only the property text and a scratch worktree; asked for less direct mechanisms)', breaks=[prop],
            needs_to_manifest=needs,
            confirmed='tools/verify_seed.sh: patch applies to /repo HEAD, builds (also with -tags verif), unedited suite passes with it, demo fails with it and passes without it',
            results={})
json.dump(meta, open(os.path.join(dst, 'meta.json'), 'w'), indent=1)
print(dst)
