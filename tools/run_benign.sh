#!/bin/sh
# tools/run_benign.sh : every patch under /verif/benign is a correct refactoring; all four checks must stay silent on it.
here=$(cd "$(dirname "$0")/.." && pwd)
for d in "$here"/benign/*/; do
  for p in C04 C05 C12 C16; do
    out=$("$here/tools/try_seeded.sh" "$d" "$p" quick)
    case "$out" in
      *MISSED*) echo "$(basename $d) $p: PASS (silent)";;
      *) echo "$(basename $d) $p: FALSE ALARM OR TROUBLE: $out";;
    esac
  done
done
