#!/bin/sh
# tools/verify_seed.sh <dir with patch.diff and demo_test.go> : confirms, in the scratch worktree /tmp/wt-self,
# that (1) the patch applies and builds, (2) the unedited suite passes with it, (3) the demo fails with it, (4) the demo passes without it.
export GOFLAGS=-mod=mod GOPROXY=off GOSUMDB=off GOTOOLCHAIN=local
d=$(cd "$1" && pwd); wt=/tmp/wt-self
demo=$(ls "$d"/*_test.go | head -1)
race=""; grep -qi -- "-race" "$d/notes.md" 2>/dev/null && race="-race"
git -C $wt checkout -q -- . && git -C $wt clean -fdq
git -C $wt apply "$d/patch.diff" || { echo "$(basename $d): APPLY-FAIL"; exit 1; }
(cd $wt && go build ./... && go build -tags verif ./...) || { echo "$(basename $d): BUILD-FAIL"; exit 1; }
suite=$(cd $wt && go test -vet=off -count=1 ./... 2>&1 | tail -1)
cp "$demo" $wt/zz_seed_demo_test.go
with=$(cd $wt && go test $race -vet=off -count=1 -run "$(grep -o 'func Test[A-Za-z0-9_]*' $demo | sed 's/func //' | paste -sd'|')" ./... 2>&1 | tail -1)
git -C $wt checkout -q -- . 
without=$(cd $wt && go test $race -vet=off -count=1 -run "$(grep -o 'func Test[A-Za-z0-9_]*' $demo | sed 's/func //' | paste -sd'|')" ./... 2>&1 | tail -1)
git -C $wt clean -fdq
echo "$(basename $d): suite-with-patch=[$suite] demo-with-patch=[$with] demo-without=[$without] race=$race"
