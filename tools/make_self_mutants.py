#!/usr/bin/env python3
"""Creates the self-authored seeded defects of DESIGN.md section 4 as
/verif/seeded/self-*/patch.diff, using a scratch worktree (/tmp/wt-self)."""
import os, subprocess, json, sys
WT = '/tmp/wt-self'
OUT = '/verif/seeded'
def sh(cmd, **kw):
    return subprocess.run(cmd, shell=True, capture_output=True, text=True, **kw)
M = []
def mut(name, prop, file, old, new, needs, count=1):
    M.append(dict(name=name, prop=prop, file=file, old=old, new=new, needs=needs, count=count))

# ---- C04 / C05: clone and state bugs
mut('contextquery-clone-returns-receiver', ['C04','C05'], 'query.go',
    'func (c *contextQuery) Clone() query {\n\treturn &contextQuery{}\n}',
    'func (c *contextQuery) Clone() query {\n\treturn c\n}',
    'two uses of the same compiled expression: the shared contextQuery keeps count>0 after the first use')
mut('filterquery-clone-shares-positmap', ['C04','C05'], 'query.go',
    'return &filterQuery{Input: f.Input.Clone(), Predicate: f.Predicate.Clone()}',
    'return &filterQuery{Input: f.Input.Clone(), Predicate: f.Predicate.Clone(), positmap: f.positmap, posit: f.posit}',
    'positional predicate evaluated on a clone made from a query that was already iterated (function-argument clones)')
mut('ancestorquery-clone-shares-table', ['C04','C05'], 'query.go',
    'return &ancestorQuery{name: a.name, Self: a.Self, Input: a.Input.Clone(), Predicate: a.Predicate}',
    'return &ancestorQuery{name: a.name, Self: a.Self, Input: a.Input.Clone(), Predicate: a.Predicate, table: a.table}',
    'ancestor axis inside a function argument or predicate evaluated more than once')
mut('lastfuncquery-clone-copies-buffer', ['C04','C05'], 'query.go',
    'return &lastFuncQuery{Input: q.Input.Clone()}',
    'return &lastFuncQuery{Input: q.Input.Clone(), buffer: q.buffer, counted: q.counted}',
    'last() inside a filter predicate on a group, cloned after having been counted')
mut('functionargs-no-clone', ['C04','C05'], 'func.go',
    '\treturn q.Clone()\n}\n\nfunc reverseFunc',
    '\treturn q\n}\n\nfunc reverseFunc',
    'a function with a node-set argument evaluated twice on one compiled expression / concurrently')
mut('namefunc-no-clone', ['C04','C05'], 'func.go',
    'v = arg.Clone().Select(t)\n\t\t\tif v == nil {\n\t\t\t\treturn ""\n\t\t\t}\n\t\t}\n\t\tns := v.Prefix()',
    'v = arg.Select(t)\n\t\t\tif v == nil {\n\t\t\t\treturn ""\n\t\t\t}\n\t\t}\n\t\tns := v.Prefix()',
    'name(path) evaluated twice on the same compiled expression')
mut('concat-no-reset', ['C04','C05'], 'func.go',
    '\t\tresult := b.String()\n\t\tb.Reset()\n\t\tbuilderPool.Put(b)\n\n\t\treturn result\n\t}\n}\n\n// https://github.com/antchfx/xpath/issues/43',
    '\t\tresult := b.String()\n\t\tbuilderPool.Put(b)\n\n\t\treturn result\n\t}\n}\n\n// https://github.com/antchfx/xpath/issues/43',
    'two concat() calls with a pool that reuses builders')
mut('gethashcode-package-scratch-buffer', ['C05'], 'query.go',
    'func getHashCode(n NodeNavigator) uint64 {\n\tvar sb bytes.Buffer',
    'var hashScratch bytes.Buffer\n\nfunc getHashCode(n NodeNavigator) uint64 {\n\tsb := &hashScratch\n\tsb.Reset()',
    'two goroutines evaluating unions / ancestor steps at the same time')
mut('unionquery-evaluate-keeps-iterator', ['C04','C05'], 'query.go',
    'func (u *unionQuery) Evaluate(t iterator) interface{} {\n\tu.iterator = nil\n',
    'func (u *unionQuery) Evaluate(t iterator) interface{} {\n',
    'a union inside a predicate or function argument that is re-evaluated for several candidates')
mut('descendantquery-clone-keeps-level', ['C04','C05'], 'query.go',
    'return &descendantQuery{name: d.name, Self: d.Self, Input: d.Input.Clone(), Predicate: d.Predicate}',
    'return &descendantQuery{name: d.name, Self: d.Self, Input: d.Input.Clone(), Predicate: d.Predicate, iterator: d.iterator, level: d.level}',
    'descendant step cloned from a query that is in mid-iteration')
mut('transformquery-clone-shares-iterator', ['C04','C05','C12'], 'query.go',
    'return &transformFunctionQuery{Input: f.Input.Clone(), Func: f.Func}',
    'return &transformFunctionQuery{Input: f.Input.Clone(), Func: f.Func, iterator: f.iterator}',
    'reverse() used as a function argument and evaluated more than once')
mut('expr-select-no-clone', ['C04','C05','C12'], 'xpath.go',
    'func (expr *Expr) Select(root NodeNavigator) *NodeIterator {\n\treturn &NodeIterator{query: expr.q.Clone(), node: root}',
    'func (expr *Expr) Select(root NodeNavigator) *NodeIterator {\n\treturn &NodeIterator{query: expr.q, node: root}',
    'second Select on the same compiled expression')

# ---- C12
mut('movenext-does-not-move-node', ['C12'], 'xpath.go',
    '\tif !t.node.MoveTo(n) {\n\t\tt.node = n.Copy()\n\t}\n\treturn true',
    '\tif t.node == nil {\n\t\tt.node = n.Copy()\n\t}\n\treturn true',
    'Current after MoveNext')
mut('transformquery-resets-at-exhaustion', ['C12'], 'query.go',
    '\tif f.iterator == nil {\n\t\tf.iterator = f.Func(f.Input, t)\n\t}\n\treturn f.iterator()\n}',
    '\tif f.iterator == nil {\n\t\tf.iterator = f.Func(f.Input, t)\n\t}\n\tn := f.iterator()\n\tif n == nil {\n\t\tf.iterator = nil\n\t}\n\treturn n\n}',
    'extra MoveNext after reverse() iterator returned false')
mut('reverse-off-by-one', ['C12'], 'func.go',
    '\ti := len(list)\n\treturn func() NodeNavigator {\n\t\tif i <= 0 {',
    '\ti := len(list)\n\treturn func() NodeNavigator {\n\t\tif i <= 1 && len(list) > 2 {',
    'reverse() over 3 or more nodes')
mut('count-ignores-last-node-of-long-sets', ['C12'], 'func.go',
    '\t\t\t\tif test(node) {\n\t\t\t\t\tcount++\n\t\t\t\t}\n\t\t\t}\n\t\t}\n\t\treturn float64(count)',
    '\t\t\t\tif test(node) {\n\t\t\t\t\tcount++\n\t\t\t\t}\n\t\t\t}\n\t\t}\n\t\tif count > 4 {\n\t\t\tcount--\n\t\t}\n\t\treturn float64(count)',
    'count() over 5 or more nodes')
mut('descendant-skips-sibling-after-deep-return', ['C12'], 'query.go',
    '\t\t\t\t\t\t\tnode.MoveToParent()\n\t\t\t\t\t\t\td.level = d.level - 1\n\t\t\t\t\t\t}',
    '\t\t\t\t\t\t\tnode.MoveToParent()\n\t\t\t\t\t\t\td.level = d.level - 1\n\t\t\t\t\t\t\tif d.level == 2 && node.MoveToNext() {\n\t\t\t\t\t\t\t\tbreak\n\t\t\t\t\t\t\t}\n\t\t\t\t\t\t}',
    'descendant traversal returning from depth 3 to depth 2 with a following sibling: it is visited out of order / skipped')
mut('union-left-appended-after-right', ['C12'], 'query.go',
    '\t\tt.Current().MoveTo(root)\n\t\tfor {\n\t\t\tnode := u.Right.Select(t)\n\t\t\tif node == nil {\n\t\t\t\tbreak\n\t\t\t}\n\t\t\tcode := getHashCode(node.Copy())\n\t\t\tif _, ok := m[code]; !ok {\n\t\t\t\tm[code] = true\n\t\t\t\tlist = append(list, node.Copy())',
    '\t\tt.Current().MoveTo(root)\n\t\tfor {\n\t\t\tnode := u.Right.Select(t)\n\t\t\tif node == nil {\n\t\t\t\tbreak\n\t\t\t}\n\t\t\tcode := getHashCode(node.Copy())\n\t\t\tif _, ok := m[code]; !ok {\n\t\t\t\tm[code] = true\n\t\t\t\tlist = append(list, node)',
    'union right operand nodes stored without Copy: later iteration moves them')

# ---- C16
mut('cache-reset-gt-instead-of-ge', ['C16'], 'cache.go',
    'if c.cap > 0 && len(c.m) >= c.cap {', 'if c.cap > 0 && len(c.m) > c.cap {',
    'capacity+1 distinct keys')
mut('cache-store-wrong-key-on-reset', ['C16'], 'cache.go',
    'c.m = map[interface{}]interface{}{key: v}\n\t\tc.reset++',
    'for k := range c.m {\n\t\t\tc.m = map[interface{}]interface{}{k: v}\n\t\t\tbreak\n\t\t}\n\t\tc.reset++',
    'a reset: the new value is stored under an evicted key')
mut('cache-stores-failed-loads', ['C16'], 'cache.go',
    '\tv, err := c.load(key)\n\tif err != nil {\n\t\treturn nil, err\n\t}\n\tc.Lock()',
    '\tv, err := c.load(key)\n\tc.Lock()\n\tdefer func() {\n\t\tif err != nil {\n\t\t\tc.m[key] = v\n\t\t}\n\t}()\n\tif err != nil {\n\t\tc.Unlock()\n\t\treturn nil, err\n\t}',
    'failed load followed by another get of the same key', )
mut('cache-store-without-lock', ['C16','C05'], 'cache.go',
    '\tc.Lock()\n\tif c.cap > 0 && len(c.m) >= c.cap {\n\t\tc.m = map[interface{}]interface{}{key: v}\n\t\tc.reset++\n\t} else {\n\t\tc.m[key] = v\n\t}\n\tc.Unlock()',
    '\tif c.cap > 0 && len(c.m) >= c.cap {\n\t\tc.m = map[interface{}]interface{}{key: v}\n\t\tc.reset++\n\t} else {\n\t\tc.m[key] = v\n\t}',
    'two goroutines missing at the same time')
mut('cache-store-under-rlock', ['C16','C05'], 'cache.go',
    '\tc.Lock()\n\tif c.cap > 0 && len(c.m) >= c.cap {\n\t\tc.m = map[interface{}]interface{}{key: v}\n\t\tc.reset++\n\t} else {\n\t\tc.m[key] = v\n\t}\n\tc.Unlock()',
    '\tc.RLock()\n\tif c.cap > 0 && len(c.m) >= c.cap {\n\t\tc.m = map[interface{}]interface{}{key: v}\n\t\tc.reset++\n\t} else {\n\t\tc.m[key] = v\n\t}\n\tc.RUnlock()',
    'two goroutines storing at the same time')
mut('cache-hit-path-keeps-rlock', ['C16','C05'], 'cache.go',
    '\tc.RLock()\n\tv, found := c.m[key]\n\tc.RUnlock()\n\tif found {\n\t\treturn v, nil\n\t}',
    '\tc.RLock()\n\tv, found := c.m[key]\n\tif found {\n\t\treturn v, nil\n\t}\n\tc.RUnlock()',
    'a hit followed by any miss: the write lock can never be taken again (deadlock)')
mut('cache-check-then-act-bound', ['C16'], 'cache.go',
    '\tv, err := c.load(key)\n\tif err != nil {\n\t\treturn nil, err\n\t}\n\tc.Lock()\n\tif c.cap > 0 && len(c.m) >= c.cap {',
    '\tc.RLock()\n\tfull := c.cap > 0 && len(c.m) >= c.cap\n\tc.RUnlock()\n\tv, err := c.load(key)\n\tif err != nil {\n\t\treturn nil, err\n\t}\n\tc.Lock()\n\tif full {',
    'fullness decided before the load: two concurrent misses at capacity-1 both insert (bound exceeded only under an interleaving inside the window)')
mut('replace-ascending-group-rewrite', ['C16'], 'func.go',
    'for idx := e.NumSubexp(); idx > 0; idx-- {',
    'for idx := 1; idx <= 1 && idx <= e.NumSubexp(); idx++ {',
    'replacement string using $2 or $3')
mut('matches-precheck-removed', ['C16'], 'build.go',
    '\t\tif q, ok := arg2.(*constantQuery); ok {\n\t\t\tif _, err = getRegexp(q.Val.(string)); err != nil {\n\t\t\t\treturn nil, fmt.Errorf("matches() got error. %v", err)\n\t\t\t}\n\t\t}\n',
    '',
    'Compile of matches() with a constant invalid pattern (note: TestInvalidXPath may cover this)')
mut('getregexp-caches-by-lowercased-key', ['C16'], 'cache.go',
    'exp, err := RegexpCache.get(pattern)',
    'exp, err := RegexpCache.get(strings.ToLower(pattern))',
    'pattern with upper-case characters', )

made = []
for m in M:
    sh(f'git -C {WT} checkout -- . && git -C {WT} clean -fdq')
    p = os.path.join(WT, m['file'])
    s = open(p).read()
    if s.count(m['old']) < 1:
        print('PATTERN NOT FOUND', m['name']); continue
    s = s.replace(m['old'], m['new'], m['count'])
    if m['name'] == 'getregexp-caches-by-lowercased-key':
        s = s.replace('import (\n\t"regexp"', 'import (\n\t"regexp"\n\t"strings"')
    if m['name'] == 'matches-precheck-removed':
        pass
    open(p, 'w').write(s)
    env = 'export GOFLAGS=-mod=mod GOPROXY=off GOSUMDB=off GOTOOLCHAIN=local; '
    b = sh(env + f'cd {WT} && gofmt -l . ; go build ./... 2>&1')
    if b.returncode != 0 or 'go' in b.stdout and '.go:' in b.stdout:
        print('BUILD FAIL', m['name'], b.stdout[:300]); continue
    t = sh(env + f'cd {WT} && go test -vet=off -count=1 ./... 2>&1 | tail -3')
    passed = 'ok ' in t.stdout and 'FAIL' not in t.stdout
    if not passed:
        print('TESTS FAIL (not kept)', m['name'], t.stdout.strip().splitlines()[-1][:200]); continue
    d = os.path.join(OUT, 'self-' + m['name'])
    os.makedirs(d, exist_ok=True)
    diff = sh(f'git -C {WT} diff').stdout
    open(os.path.join(d, 'patch.diff'), 'w').write(diff)
    meta = dict(id='self-' + m['name'], author='self (DESIGN.md §4 sensitivity list)', breaks=m['prop'],
                needs_to_manifest=m['needs'], baseline_tests_pass_with_patch=True)
    open(os.path.join(d, 'meta.json'), 'w').write(json.dumps(meta, indent=1) + '\n')
    made.append(m['name'])
    print('ok', m['name'])
sh(f'git -C {WT} checkout -- . && git -C {WT} clean -fdq')
print(len(made), 'mutants')
