module verifsim

go 1.23
