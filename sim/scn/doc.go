package scn

// NodeSpec is one node of a simulated document, as stored in replay files.
type NodeSpec struct {
	K  string      `json:"k"`            // "e" element, "t" text, "c" comment
	N  string      `json:"n,omitempty"`  // element name, optionally "prefix:local"
	NS string      `json:"ns,omitempty"` // namespace URL of an element
	V  string      `json:"v,omitempty"`  // text / comment data
	A  [][2]string `json:"a,omitempty"`  // attributes (name, value), in document order
	C  []*NodeSpec `json:"c,omitempty"`  // children
}

// DocSpec is a document: the children of its root node.
type DocSpec struct {
	C []*NodeSpec `json:"c"`
	// NoNS: the document is navigated through a second navigator implementation
	// that has no NamespaceURL() method
	NoNS bool `json:"no_ns,omitempty"`
	// TextName: text and comment nodes report their data as LocalName (as
	// xmlquery's navigator does) instead of ""
	TextName bool `json:"text_name,omitempty"`
	// ShallowValue: the Value() of an element is the concatenation of its own
	// trimmed text children only (as the package's test navigator does), not of
	// all descendant text
	ShallowValue bool `json:"shallow_value,omitempty"`
}

// Count returns the number of nodes including the root and attributes.
func (d *DocSpec) Count() int {
	n := 1
	var walk func(x *NodeSpec)
	walk = func(x *NodeSpec) {
		n += 1 + len(x.A)
		for _, c := range x.C {
			walk(c)
		}
	}
	for _, c := range d.C {
		walk(c)
	}
	return n
}

func (x *NodeSpec) clone() *NodeSpec {
	y := *x
	y.A = append([][2]string(nil), x.A...)
	y.C = make([]*NodeSpec, len(x.C))
	for i, c := range x.C {
		y.C[i] = c.clone()
	}
	return &y
}

func (d DocSpec) Clone() DocSpec {
	var o DocSpec
	o.NoNS, o.TextName, o.ShallowValue = d.NoNS, d.TextName, d.ShallowValue
	for _, c := range d.C {
		o.C = append(o.C, c.clone())
	}
	return o
}

var (
	ElemNames = []string{"a", "b", "c", "a", "b", "a-1", "x:a", "d", "y:b", "b.c", "or", "and"}
	AttrNames = []string{"id", "k", "id", "x:k", "n", "xml:lang", "a", "b", "or"}
	Values    = []string{"1", "2", "21", "3", "3.5", "-1", "0", "abc", "ab", "b", "a", "", " ", " a  b ", "NaN", "1e2", "10", "aXb", "Abc", "é", "中a", "-0", ".5", "+1", " 7 ", "7", "\n 1\n", "2 ", "0.1", "0.2", "0.7"}
	NSURLs    = []string{"", "", "urn:x", "urn:y"}
)

// GenDoc draws a document with at most maxNodes nodes (counting attributes).
// TightValues: a small alphabet whose members concatenate into each other
// ("ab"+"" = "a"+"b"), used for whole documents now and then so that keys
// built by concatenation or lossy hashing collide.
var TightValues = []string{"", "a", "b", "ab", "ba", "a", "b", "1", "12", "2"}

// NumValues: several spellings of few numbers (and some non-numbers that
// trimming or lenient parsing would turn into them), for runs about sum() and
// number(): the collision class of anything keyed by a normalised spelling.
var NumValues = []string{"1", " 1", "1 ", "01", "1.0", "+1", "1e0", "7", " 7 ", "\n7\n", "7.", "0", "-0", "", " ", "NaN", "x1", "2", "2 ", "0x1", "1_0", "Inf",
	// sums of these depend on the order of addition (floating point is not associative)
	"0.1", "0.2", "0.3", "0.7", "1.1", "1e16", "-1e16", "0.1", "0.2"}

func GenDoc(r *Rng, maxNodes int) DocSpec {
	if r.Chance(1, 3) {
		saved := Values
		Values = TightValues
		defer func() { Values = saved }()
	}
	return genDoc(r, maxNodes)
}

// GenWideDoc draws a document with one very wide level (17-70 siblings under
// one parent, a few of them with children of their own): sizes at which
// buffers pre-sized to 8, 16, 32 or 64 elements have to grow.
func GenWideDoc(r *Rng) DocSpec {
	top := &NodeSpec{K: "e", N: r.Pick(ElemNames)}
	n := []int{17, 18, 33, 34, 65, 70, 20, 40}[r.Intn(8)]
	names := []string{r.Pick(ElemNames), r.Pick(ElemNames)}
	for i := 0; i < n; i++ {
		c := &NodeSpec{K: "e", N: names[r.Intn(2)]}
		if r.Chance(1, 2) {
			c.A = append(c.A, [2]string{r.Pick(AttrNames), r.Pick(Values)})
		}
		if r.Chance(1, 6) {
			for k := r.Range(1, 3); k > 0; k-- {
				c.C = append(c.C, &NodeSpec{K: "e", N: r.Pick(ElemNames)})
			}
		}
		if r.Chance(1, 5) {
			c.C = append(c.C, &NodeSpec{K: "t", V: r.Pick(Values)})
		}
		top.C = append(top.C, c)
	}
	return DocSpec{C: []*NodeSpec{top}}
}

// GenTableDoc draws a regular document: 5-14 sibling rows that all carry the
// same two or three attributes, with values from a four-value alphabet whose
// members concatenate into each other. A function fed @k, @n from one row after
// the other then sees argument tuples that collide under any key built by
// concatenation or lossy hashing.
func GenTableDoc(r *Rng) DocSpec {
	vals := []string{"", "a", "b", "ab"}
	var collide [][2]string // two (k, n) pairs that glue into the same string around a separator
	switch r.Intn(4) {
	case 0:
		vals = []string{"1", "12", "2", ""}
	case 1, 2:
		// values containing the characters keys are usually glued together with:
		// (x S y, z) and (x, y S z) collide under k + S + n
		sep := r.Pick([]string{"|", "/", ":", ",", "-", ";", "=", "#", " ", "\x00", "_"})
		x, y, z := r.Pick([]string{"a", "1"}), r.Pick([]string{"b", "2"}), r.Pick([]string{"c", "3", "ab"})
		vals = []string{x + sep + y, z, x, y + sep + z}
		collide = [][2]string{{x + sep + y, z}, {x, y + sep + z}}
	}
	names := []string{"k", "n", "id"}[:r.Range(2, 3)]
	row := r.Pick([]string{"a", "b", "c"})
	top := &NodeSpec{K: "e", N: "d"}
	for n := r.Range(5, 14); n > 0; n-- {
		e := &NodeSpec{K: "e", N: row}
		for _, an := range names {
			e.A = append(e.A, [2]string{an, vals[r.Intn(len(vals))]})
		}
		if r.Chance(2, 3) {
			e.C = append(e.C, &NodeSpec{K: "t", V: []string{"abab", "aabb", "ba", "a1b2", "121"}[r.Intn(5)]})
		}
		top.C = append(top.C, e)
	}
	if collide != nil && r.Chance(3, 4) {
		// two rows whose first two attributes are a colliding pair, in either order of columns
		i, j := r.Intn(len(top.C)), r.Intn(len(top.C))
		a, b := 0, 1
		if r.Chance(1, 3) {
			a, b = 1, 0
		}
		top.C[i].A[a][1], top.C[i].A[b][1] = collide[0][0], collide[0][1]
		if j != i {
			top.C[j].A[a][1], top.C[j].A[b][1] = collide[1][0], collide[1][1]
		}
	}
	return DocSpec{C: []*NodeSpec{top}}
}

// GenDeepDoc draws a chain 8-14 elements deep with a little fan-out.
func GenDeepDoc(r *Rng) DocSpec {
	top := &NodeSpec{K: "e", N: r.Pick(ElemNames)}
	cur := top
	for d := r.Range(8, 14); d > 0; d-- {
		c := &NodeSpec{K: "e", N: r.Pick(ElemNames[:4])}
		if r.Chance(1, 3) {
			c.A = append(c.A, [2]string{r.Pick(AttrNames), r.Pick(Values)})
		}
		cur.C = append(cur.C, c)
		if r.Chance(1, 3) {
			cur.C = append(cur.C, &NodeSpec{K: "e", N: r.Pick(ElemNames[:4])})
		}
		if r.Chance(1, 4) {
			cur.C = append(cur.C, &NodeSpec{K: "t", V: r.Pick(Values)})
		}
		cur = c
	}
	return DocSpec{C: []*NodeSpec{top}}
}

func genDoc(r *Rng, maxNodes int) DocSpec {
	if maxNodes < 3 {
		maxNodes = 3
	}
	budget := r.Range(3, maxNodes)
	var d DocSpec
	// a single top element most of the time (like XML); sometimes several top
	// nodes (like an HTML fragment with a leading comment)
	if r.Chance(1, 6) {
		d.C = append(d.C, &NodeSpec{K: "c", V: r.Pick(Values)})
		budget--
	}
	top := &NodeSpec{K: "e", N: r.Pick(ElemNames)}
	budget--
	d.C = append(d.C, top)
	genChildren(r, top, &budget, 1)
	if r.Chance(1, 6) && budget > 0 {
		// several top-level elements (a fragment, a record stream, a JSON-like
		// tree), half of the time all with the same name
		same := r.Chance(1, 2)
		for k := r.Range(1, 3); k > 0 && budget > 0; k-- {
			e := &NodeSpec{K: "e", N: r.Pick(ElemNames)}
			if same {
				e.N = top.N
			}
			budget--
			d.C = append(d.C, e)
			genChildren(r, e, &budget, 1)
		}
	}
	// spend what is left by widening random elements
	for tries := 0; budget > 0 && tries < 20; tries++ {
		els := elements(&d)
		e := els[r.Intn(len(els))]
		genChildren(r, e, &budget, 2)
	}
	return d
}

func elements(d *DocSpec) []*NodeSpec {
	var out []*NodeSpec
	var walk func(x *NodeSpec)
	walk = func(x *NodeSpec) {
		if x.K == "e" {
			out = append(out, x)
		}
		for _, c := range x.C {
			walk(c)
		}
	}
	for _, c := range d.C {
		walk(c)
	}
	return out
}

func genChildren(r *Rng, e *NodeSpec, budget *int, depth int) {
	if x := NSURLs[r.Intn(len(NSURLs))]; x != "" && e.NS == "" && r.Chance(1, 3) {
		e.NS = x
	}
	na := r.Weighted([]int{5, 4, 2, 1})
	for i := 0; i < na && *budget > 0; i++ {
		name := r.Pick(AttrNames)
		dup := false
		for _, a := range e.A {
			if a[0] == name {
				dup = true
			}
		}
		if dup {
			continue
		}
		e.A = append(e.A, [2]string{name, r.Pick(Values)})
		*budget--
	}
	nc := r.Weighted([]int{2, 3, 4, 4, 2, 1})
	if depth >= 4 {
		nc = r.Weighted([]int{4, 3, 1})
	}
	for i := 0; i < nc && *budget > 0; i++ {
		switch r.Weighted([]int{6, 3, 1}) {
		case 0:
			c := &NodeSpec{K: "e", N: r.Pick(ElemNames)}
			*budget--
			e.C = append(e.C, c)
			if r.Chance(3, 4) {
				genChildren(r, c, budget, depth+1)
			}
		case 1:
			e.C = append(e.C, &NodeSpec{K: "t", V: r.Pick(Values)})
			*budget--
		case 2:
			e.C = append(e.C, &NodeSpec{K: "c", V: r.Pick(Values)})
			*budget--
		}
	}
}

// ShrinkDoc enumerates smaller variants of d: each with one subtree, one
// attribute removed, or one subtree hoisted in place of its parent.
func ShrinkDoc(d DocSpec) []DocSpec {
	var out []DocSpec
	// paths to nodes as index lists
	type loc struct{ path []int }
	var locs []loc
	var walk func(cs []*NodeSpec, p []int)
	walk = func(cs []*NodeSpec, p []int) {
		for i, c := range cs {
			q := append(append([]int(nil), p...), i)
			locs = append(locs, loc{q})
			walk(c.C, q)
		}
	}
	walk(d.C, nil)
	get := func(dd *DocSpec, p []int) (parentKids *[]*NodeSpec, idx int) {
		kids := &dd.C
		for i := 0; i < len(p)-1; i++ {
			kids = &(*kids)[p[i]].C
		}
		return kids, p[len(p)-1]
	}
	// remove larger subtrees first: visit in order of appearance (top-down)
	for _, l := range locs {
		nd := d.Clone()
		kids, i := get(&nd, l.path)
		if len(nd.C) == 1 && len(l.path) == 1 {
			continue // keep at least one top node
		}
		*kids = append((*kids)[:i:i], (*kids)[i+1:]...)
		out = append(out, nd)
	}
	for _, l := range locs {
		nd := d.Clone()
		kids, i := get(&nd, l.path)
		n := (*kids)[i]
		// hoist the children in place of the node
		if len(n.C) > 0 && len(l.path) > 1 {
			repl := append([]*NodeSpec(nil), (*kids)[:i]...)
			repl = append(repl, n.C...)
			repl = append(repl, (*kids)[i+1:]...)
			*kids = repl
			out = append(out, nd)
		}
	}
	for _, l := range locs {
		kids0, i0 := get(&d, l.path)
		for ai := range (*kids0)[i0].A {
			nd := d.Clone()
			kids, i := get(&nd, l.path)
			n := (*kids)[i]
			n.A = append(n.A[:ai:ai], n.A[ai+1:]...)
			out = append(out, nd)
		}
	}
	return out
}

// ElementIDs returns the document-order ids (root = 0, attributes numbered
// right after their element) of the root and of every element that has
// children: the contexts from which relative paths select something.
func ElementIDs(d DocSpec) []int {
	ids := []int{0}
	n := 1
	var walk func(x *NodeSpec)
	walk = func(x *NodeSpec) {
		id := n
		n += 1 + len(x.A)
		if x.K == "e" && len(x.C) > 0 {
			ids = append(ids, id)
		}
		for _, c := range x.C {
			walk(c)
		}
	}
	for _, c := range d.C {
		walk(c)
	}
	return ids
}
