package scn

import (
	"encoding/json"
	"strconv"
	"strings"
)

// Yield kinds that may be scheduling points in goroutine mode (bit mask).
const (
	YNav   = 1 << iota // navigator method calls
	YLock              // lock acquire / release announced by the sync shim
	YPool              // pool get / put
	YLoad              // inside the cache loader
	YEnter             // entry of every function of the package under test
	YAll   = YNav | YLock | YPool | YLoad | YEnter
)

// Config is the per-run (swarm) configuration.
type Config struct {
	CacheCap    int    `json:"cache_cap"`              // -1: the package's default cache; >=0: a client cache with this capacity installed before the run
	PoolMode    int    `json:"pool_mode"`              // 0 real sync.Pool, 1 deterministic LIFO (maximal reuse)
	Strategy    string `json:"strategy,omitempty"`     // goroutine mode: "walk" or "pct"
	SwitchDen   int    `json:"switch_den,omitempty"`   // walk: switch task with probability 1/SwitchDen at an enabled yield point
	Preempts    int    `json:"preempts,omitempty"`     // pct: number of forced preemptions
	Yields      int    `json:"yields,omitempty"`       // enabled yield kinds (bit mask)
	LoadSlow    int    `json:"load_slow,omitempty"`    // extra yields inside the loader
	Faults      bool   `json:"faults"`                 // false: fault-free stratum
	NS          bool   `json:"ns,omitempty"`           // compile with CompileWithNS({x: urn:x, y: urn:y}) instead of Compile
	NSSwap      bool   `json:"ns_swap,omitempty"`      // with NS: bind x->urn:y and y->urn:x instead of x->urn:x, y->urn:y
	NSRebind    bool   `json:"ns_rebind,omitempty"`    // compile every expression once, then re-bind the prefixes in the same map object before the tasks start
	Must        bool   `json:"must,omitempty"`         // compile through MustCompile instead of Compile
	ColdProcess bool   `json:"cold_process,omitempty"` // goroutine mode: executed in a pristine child process, and the reference outcomes are computed AFTER the concurrent phase, so that the tasks meet a package nobody has warmed up (lazily initialised tables)
	Pristine    bool   `json:"pristine,omitempty"`     // also compute every reference outcome in a pristine child process
	SyncBias    bool   `json:"sync_bias,omitempty"`    // walk strategy: switch with probability 1/2 whenever the running task announces a lock, pool or atomic operation
	LooseMoveTo bool   `json:"loose_moveto,omitempty"` // the navigators' MoveTo does not check that the other navigator is on the same document: it adopts the other's document and position
}

// ExprSpec is one expression of a scenario.
type ExprSpec struct {
	Text string `json:"text"`
	AST  *E     `json:"ast,omitempty"`
	Flat bool   `json:"flat,omitempty"` // member of the C12 flat fragment (order clause applies)
	NS   bool   `json:"ns,omitempty"`   // intended to be node-set valued
}

// Step is one operation of a history (mode H) or of a task program (mode G).
type Step struct {
	Op    string `json:"op"`
	E     int    `json:"e,omitempty"`     // expression index
	D     int    `json:"d,omitempty"`     // document index
	C     int    `json:"c,omitempty"`     // context node (taken modulo the node count)
	H     int    `json:"h,omitempty"`     // handle selector (taken modulo the number of live handles)
	N     int    `json:"n,omitempty"`     // count argument
	Crash int    `json:"crash,omitempty"` // >0: the Crash-th navigator call inside this operation panics (nav-panic fault)
	K     string `json:"k,omitempty"`     // cache key / regular expression
	S     string `json:"s,omitempty"`     // subject string
	R     string `json:"r,omitempty"`     // replacement string
	Fail  bool   `json:"fail,omitempty"`  // the loader fails during this operation (load-error fault)
	Panic bool   `json:"panic,omitempty"` // the loader panics during this operation (load-panic fault)
	Src   string `json:"src,omitempty"`   // how the pattern reaches the engine: const | concat
	Rep   int    `json:"rep,omitempty"`   // the operation is performed Rep more times in a row (warm-up histories: adaptive code paths)
}

// IndexedStep is a step with its index in the scenario's step list.
type IndexedStep struct {
	I  int
	St Step
}

// Expand unrolls repeated steps; every copy keeps the index of the original.
func Expand(steps []Step) []IndexedStep {
	var out []IndexedStep
	for i, st := range steps {
		n := st.Rep
		st.Rep = 0
		for k := 0; k <= n; k++ {
			out = append(out, IndexedStep{i, st})
		}
	}
	return out
}

// RepCounts: how often a warm-up operation is repeated - around the thresholds
// adaptive code tends to use.
var RepCounts = []int{3, 8, 9, 16, 17, 32, 33, 64, 65, 100, 101, 128, 129, 256, 257, 1000, 1025}

func pickRep(r *Rng, max int) int {
	for {
		n := RepCounts[r.Intn(len(RepCounts))]
		if n <= max {
			return n
		}
	}
}

// Scenario is the explicit, self-contained description of one simulated run.
// It is what a replay file contains; executing it draws no random numbers.
type Scenario struct {
	Prop  string     `json:"prop"`
	Mode  string     `json:"mode"` // "H" histories on one goroutine, "G" goroutines under the seeded scheduler
	Seed  uint64     `json:"seed"`
	Run   uint64     `json:"run"`
	Cfg   Config     `json:"cfg"`
	Docs  []DocSpec  `json:"docs,omitempty"`
	Exprs []ExprSpec `json:"exprs,omitempty"`
	Steps []Step     `json:"steps,omitempty"` // mode H
	Tasks [][]Step   `json:"tasks,omitempty"` // mode G
	// Sched is the explicit schedule of a mode G run: the task chosen at each
	// scheduling point. Empty when the scenario has not been executed yet; then
	// the scheduler draws from SchedSeed and records its choices here.
	Sched     []int  `json:"sched,omitempty"`
	SchedSeed uint64 `json:"sched_seed,omitempty"`
	// Before lists scenarios executed first, in the same process, with their
	// own results ignored. It is only filled when a violation does not
	// reproduce from a pristine process, i.e. when the code under test keeps
	// state outside the objects the simulator resets between runs (a
	// package-level memo table, say): the earlier runs are then part of the
	// history that makes the violation happen, and of its replay file.
	Before []*Scenario `json:"before,omitempty"`
}

func (s *Scenario) Clone() *Scenario {
	b, _ := json.Marshal(s)
	var c Scenario
	_ = json.Unmarshal(b, &c)
	return &c
}

// Hash identifies the scenario without its schedule.
func (s *Scenario) Hash() uint64 {
	c := *s
	c.Sched = nil
	c.Before = nil
	c.Seed, c.Run = 0, 0
	b, _ := json.Marshal(&c)
	return HashString(string(b))
}

// ---------------------------------------------------------------------------
// generators

func genDocs(r *Rng, maxNodes int) []DocSpec {
	n := r.Weighted([]int{0, 5, 3, 1})
	var ds []DocSpec
	defer func() {
		// one document in six is navigated through the second navigator type
		for i := range ds {
			if r.Chance(1, 6) {
				ds[i].NoNS = true
			}
			// other legal navigator behaviours
			if r.Chance(1, 8) {
				ds[i].TextName = true
			}
			if r.Chance(1, 8) {
				ds[i].ShallowValue = true
			}
			// namespace declarations show up as attributes (as in xmlquery)
			if r.Chance(1, 4) {
				DeclareNamespaces(&ds[i])
			}
			// size stratum: one very long text (4-9 KB), different from document to document
			if r.Chance(1, 24) {
				els := elements(&ds[i])
				e := els[r.Intn(len(els))]
				e.C = append(e.C, &NodeSpec{K: "t", V: LongText(r)})
			}
		}
	}()
	for i := 0; i < n; i++ {
		switch {
		case r.Chance(1, 14):
			ds = append(ds, GenWideDoc(r)) // size stratum: one very wide level
		case r.Chance(1, 10):
			ds = append(ds, GenDeepDoc(r)) // size stratum: a deep chain
		default:
			ds = append(ds, GenDoc(r, maxNodes))
		}
	}
	return ds
}

// DeclareNamespaces gives every element that has a prefix and a namespace an
// xmlns:<prefix> attribute declaring it.
func DeclareNamespaces(d *DocSpec) {
	for _, e := range elements(d) {
		i := strings.IndexByte(e.N, ':')
		if i < 0 || e.NS == "" {
			continue
		}
		name := "xmlns:" + e.N[:i]
		have := false
		for _, a := range e.A {
			have = have || a[0] == name
		}
		if !have {
			e.A = append([][2]string{{name, e.NS}}, e.A...)
		}
	}
}

// LongText draws a text of 4200-9000 bytes made of words and runs of blanks.
func LongText(r *Rng) string {
	words := []string{"alpha", "bravo", "gamma", "delta", "a", "b", "ab", "1", "é", "中"}
	var b strings.Builder
	n := r.Range(4200, 9000)
	for b.Len() < n {
		b.WriteString(words[r.Intn(len(words))])
		b.WriteString([]string{" ", "  ", "\n ", " "}[r.Intn(4)])
	}
	return b.String()
}

// LongPattern draws a valid pattern of more than 256 bytes (300-700): lengths
// at which per-pattern fast paths and fixed-size buffers end.
func LongPattern(r *Rng) string {
	base := r.Pick([]string{"a", "b", "ab", "[ab]", "(a)", "a+", "b?"})
	alt := r.Pick([]string{"c", "d", "cd", "[cd]", "x"})
	var b strings.Builder
	n := r.Range(300, 700)
	for b.Len() < n {
		b.WriteString("(?:" + alt + string(rune('0'+b.Len()%10)) + ")?")
	}
	b.WriteString(base)
	return b.String()
}

// namespaceRun turns a scenario into one in which namespaces matter: two
// documents with elements in both namespaces, each navigated through either
// navigator implementation, each possibly declaring its prefixes with xmlns:*
// attributes (the two documents bind urn:x to different prefixes), and a few
// plain prefixed name tests among the expressions.
func namespaceRun(r *Rng, s *Scenario, ok CompileOK, flat bool) {
	for len(s.Docs) < 2 {
		s.Docs = append(s.Docs, GenDoc(r, 12))
	}
	for di := 0; di < 2; di++ {
		top := s.Docs[di].C[len(s.Docs[di].C)-1]
		other := []string{"z:a", "y:a"}[di]
		top.C = append(top.C, &NodeSpec{K: "e", N: "x:a", NS: "urn:x", A: [][2]string{{"id", "1"}}}, &NodeSpec{K: "e", N: "y:b", NS: "urn:y"},
			&NodeSpec{K: "e", N: "x:a", NS: "urn:y"}, &NodeSpec{K: "e", N: other, NS: "urn:x", A: [][2]string{{"id", "2"}}})
		s.Docs[di].NoNS = r.Chance(2, 3)
		if r.Chance(3, 4) {
			DeclareNamespaces(&s.Docs[di])
		}
	}
	for k := r.Range(1, 2); k > 0; k-- {
		if flat {
			t := r.Pick([]string{"x:a", "y:b"})
			e := &E{Op: "path", S: "//", Kids: []*E{{Op: "step", S: "child", T: t, Abbr: true}}}
			if r.Chance(1, 2) {
				e = &E{Op: "path", S: "/", Kids: []*E{{Op: "step", S: "child", T: "*", Abbr: true}, {Op: "step", S: "child", T: t, Abbr: true, Sep: "/"}}}
			}
			if ok == nil || ok(e.String()) {
				s.Exprs = append(s.Exprs, ExprSpec{Text: e.String(), AST: e, Flat: true, NS: true})
			}
			continue
		}
		t := r.Pick([]string{"//x:a", "//y:b", "count(//x:a)", "//x:a/@id", "//*[self::x:a]", "//x:a | //y:b"})
		if ok == nil || ok(t) {
			s.Exprs = append(s.Exprs, ExprSpec{Text: t})
		}
	}
}

// longValueRun: every document gets a text of several kilobytes below its top
// element and the expressions include string functions applied to the whole
// document's string value (sizes at which fixed buffers and "large value"
// paths begin).
func longValueRun(r *Rng, s *Scenario, ok CompileOK) {
	for len(s.Docs) < 2 {
		s.Docs = append(s.Docs, GenDoc(r, 8))
	}
	for i := range s.Docs {
		top := s.Docs[i].C[len(s.Docs[i].C)-1]
		top.C = append(top.C, &NodeSpec{K: "t", V: LongText(r)})
		s.Docs[i].ShallowValue = false
	}
	texts := []string{"normalize-space(/*)", "normalize-space(/)", "string-length(normalize-space(/*))", "lower-case(/*)", "translate(/*, 'ab', 'ba')",
		"substring(/*, 4000, 200)", "substring-after(/*, 'gamma')", "substring-before(/*, 'delta  alpha')", "contains(/*, 'delta  alpha')", "concat(/*, 'x', /*)",
		"string-join(//text(), '-')", "replace(/*, 'a+', 'x')", "matches(/*, 'gamma +delta')", "string(/*)", "//*[normalize-space() = normalize-space(/*)]",
		"ends-with(/*, 'a ')", "starts-with(/*, 'alpha')", "string-length(/*)", "number(/*)", "//*[contains(., 'bravo alpha')]"}
	for k := r.Range(2, 4); k > 0; k-- {
		t := r.Pick(texts)
		if ok == nil || ok(t) {
			s.Exprs = append(s.Exprs, ExprSpec{Text: t})
		}
	}
}

// rowID: the node id of the i-th child of the top element of a table document.
func rowID(d DocSpec, i int) int {
	id := 2 + len(d.C[0].A) // root 0, top element 1, its attributes
	for k := 0; k < i; k++ {
		id += (&DocSpec{C: []*NodeSpec{d.C[0].C[k]}}).Count() - 1
	}
	return id
}

func baseCfg(r *Rng) Config {
	c := Config{CacheCap: -1, PoolMode: r.Intn(2), Faults: !r.Chance(1, 4), NS: r.Chance(1, 5), NSSwap: r.Chance(1, 2), Pristine: r.Chance(1, 100), Must: r.Chance(1, 8), LooseMoveTo: r.Chance(1, 6)}
	if r.Chance(1, 3) {
		c.CacheCap = []int{0, 1, 2, 3, 5, 8, 9}[r.Intn(7)]
	}
	return c
}

// CompileOK lets generators reject texts the engine does not accept; it is
// supplied by the worker (which links the package under test). When nil every
// text is accepted.
type CompileOK func(text string) bool

func genExprs(g *Gen, n int, ok CompileOK, mk func() (*E, bool, bool)) []ExprSpec {
	var out []ExprSpec
	for tries := 0; len(out) < n && tries < n*12; tries++ {
		e, flat, ns := mk()
		t := e.String()
		if len(t) > 400 && !g.LongTexts {
			continue
		}
		if ok != nil && !ok(t) {
			continue
		}
		out = append(out, ExprSpec{Text: t, AST: e, Flat: flat, NS: ns})
	}
	if len(out) == 0 {
		e := &E{Op: "path", S: "//", Kids: []*E{{Op: "step", S: "child", T: "a", Abbr: true}}}
		out = append(out, ExprSpec{Text: e.String(), AST: e, NS: true})
	}
	return out
}

// ctxFor picks a context node: mostly the root or an element with children.
func ctxFor(r *Rng, docs []DocSpec, d int) int {
	if r.Chance(1, 4) {
		return r.Intn(1000)
	}
	ids := ElementIDs(docs[d%len(docs)])
	return ids[r.Intn(len(ids))]
}

// GenC04 draws a history of Select / Evaluate / MoveNext / abandon / crash
// operations on a few shared compiled expressions.
func GenC04(seed, run uint64, ok CompileOK) *Scenario {
	r := NewRng(seed, HashString("C04"), run)
	s := &Scenario{Prop: "C04", Mode: "H", Seed: seed, Run: run, Cfg: baseCfg(r)}
	focus := ""
	tableDoc, tableExpr := false, false
	if r.Chance(1, 4) {
		focus = r.Pick(FocusFuncs) // swarm: a run about one function fed context-dependent arguments
	}
	if (focus == "sum" || focus == "number") && r.Chance(2, 3) {
		saved := Values
		Values = NumValues
		s.Docs = genDocs(r, r.Range(4, 26))
		Values = saved
	} else if focus != "" && r.Chance(2, 3) {
		// its documents use the tight value alphabet, so that the arguments the
		// function sees on different context nodes collide and concatenate into each other
		saved := Values
		Values = TightValues
		s.Docs = genDocs(r, r.Range(4, 26))
		Values = saved
		if r.Chance(2, 3) {
			s.Docs[0] = GenTableDoc(r) // regular rows: the function sees colliding argument tuples back to back
			tableDoc = true
		}
	} else {
		s.Docs = genDocs(r, r.Range(4, 26))
	}
	g := NewGen(r)
	g.UseDocs(s.Docs)
	g.StackPos = true
	g.FocusFn = focus
	nsRun := s.Cfg.NS && r.Chance(2, 3)
	if nsRun {
		for len(s.Docs) < 2 {
			s.Docs = append(s.Docs, GenDoc(r, 12))
		}
	}
	s.Exprs = genExprs(g, r.Range(1, 5), ok, func() (*E, bool, bool) { return g.Top(), false, false })
	if nsRun {
		namespaceRun(r, s, ok, false)
	}
	if r.Chance(1, 20) {
		longValueRun(r, s, ok)
	}
	if tableDoc && (focus == "translate" || focus == "concat" || focus == "replace" || focus == "substring-before" || focus == "contains" || focus == "string-join") {
		// the function fed the table's first two columns, in column order, from
		// one row after the other (the rows hold tuples that collide under any
		// key glued together from the arguments)
		rows := s.Docs[0].C[0].C
		c0, c1 := rows[0].A[0][0], rows[0].A[1][0]
		at := func(n string) *E { return &E{Op: "path", Kids: []*E{{Op: "step", S: "attribute", T: n, Abbr: true}}} }
		subj := &E{Op: "path", Kids: []*E{{Op: "step", S: "self", T: "node()", Abbr: true}}}
		var e *E
		switch focus {
		case "translate":
			e = &E{Op: "fn", S: "translate", Kids: []*E{subj, at(c0), at(c1)}}
		case "replace":
			e = &E{Op: "fn", S: "replace", Kids: []*E{subj, at(c0), at(c1)}}
		case "string-join":
			e = &E{Op: "fn", S: "string-join", Kids: []*E{{Op: "path", Kids: []*E{{Op: "step", S: "attribute", T: "*", Abbr: true}}}, at(c1)}}
		default:
			e = &E{Op: "fn", S: focus, Kids: []*E{at(c0), at(c1)}}
		}
		if ok == nil || ok(e.String()) {
			s.Exprs = append([]ExprSpec{{Text: e.String(), AST: e}}, s.Exprs...)
			tableExpr = true
		}
	}
	nsteps := r.Range(6, 60)
	w := []int{r.Range(2, 8), r.Range(2, 10), r.Range(4, 14), r.Range(0, 3), r.Range(1, 5), 0, 0, 0, r.Range(0, 2)}
	if r.Chance(1, 8) {
		w[7] = r.Range(1, 3) // gc: a garbage collection between two operations (finalizers of abandoned iterators run)
		w[3] += 3            // with iterators abandoned before it
	}
	if focus != "" {
		w[1] += 10 // many Evaluate calls from many context nodes
		w[4] += 4
	}
	if s.Cfg.Faults {
		w[5] = r.Range(0, 3) // crash
		w[6] = r.Range(0, 1) // swap cache
	}
	for i := 0; i < nsteps; i++ {
		st := Step{E: r.Intn(len(s.Exprs)), D: r.Intn(len(s.Docs)), H: r.Intn(1000)}
		st.C = ctxFor(r, s.Docs, st.D)
		if nsRun && r.Chance(2, 3) {
			st.D, st.C = r.Intn(2), 0
		}
		if tableExpr && r.Chance(1, 2) {
			// the table expression from a random row
			st.E, st.D = 0, 0
			st.C = rowID(s.Docs[0], r.Intn(len(s.Docs[0].C[0].C)))
		}
		switch r.Weighted(w) {
		case 0:
			st.Op = "select"
		case 1:
			st.Op = "eval"
		case 2:
			st.Op = "next"
			st.N = r.Weighted([]int{0, 8, 3, 2, 1})
		case 3:
			st.Op = "abandon"
		case 4:
			st.Op = "probe"
		case 5:
			st.Op = []string{"eval", "next", "select"}[r.Intn(3)]
			st.N = r.Range(1, 4)
			st.Crash = r.Range(1, 40)
		case 6:
			st.Op = "swapcache"
			st.N = []int{0, 1, 2, 3, 5}[r.Intn(5)]
		case 7:
			st.Op = "gc"
		case 8:
			st.Op = "str" // String() and, for odd N, the package-level Select on the same text
			st.N = r.Intn(2)
		}
		s.Steps = append(s.Steps, st)
	}
	if s.Cfg.NS && r.Chance(1, 2) {
		// the client re-binds prefixes in the map it compiled with, somewhere in the history
		at := r.Intn(len(s.Steps) + 1)
		s.Steps = append(s.Steps[:at:at], append([]Step{{Op: "nsrebind"}}, s.Steps[at:]...)...)
	}
	if r.Chance(1, 8) {
		// warm-up run: one (expression, document, context) is evaluated many times
		// in a row somewhere in the history (adaptive code paths)
		e, d := r.Intn(len(s.Exprs)), r.Intn(len(s.Docs))
		c := ctxFor(r, s.Docs, d)
		at := r.Intn(len(s.Steps) + 1)
		w := Step{Op: r.Pick([]string{"eval", "probe", "probe"}), E: e, D: d, C: c, Rep: pickRep(r, 1100)}
		s.Steps = append(s.Steps[:at:at], append([]Step{w}, s.Steps[at:]...)...)
		// and the same expression is used again afterwards, elsewhere
		for k := r.Range(1, 3); k > 0; k-- {
			d2 := r.Intn(len(s.Docs))
			s.Steps = append(s.Steps, Step{Op: r.Pick([]string{"eval", "probe"}), E: e, D: d2, C: ctxFor(r, s.Docs, d2)})
		}
	}
	return s
}

// GenC12 draws iterator-protocol histories over node-set expressions.
func GenC12(seed, run uint64, ok CompileOK) *Scenario {
	r := NewRng(seed, HashString("C12"), run)
	s := &Scenario{Prop: "C12", Mode: "H", Seed: seed, Run: run, Cfg: Config{CacheCap: -1, PoolMode: r.Intn(2), Faults: true, Pristine: r.Chance(1, 100)}}
	s.Cfg.NS, s.Cfg.NSSwap, s.Cfg.LooseMoveTo = r.Chance(1, 5), r.Chance(1, 2), r.Chance(1, 6)
	s.Docs = genDocs(r, r.Range(6, 40))
	nsRun := s.Cfg.NS && r.Chance(1, 2)
	if nsRun {
		for len(s.Docs) < 2 {
			s.Docs = append(s.Docs, GenDoc(r, 12))
		}
	}
	g := NewGen(r)
	g.UseDocs(s.Docs)
	g.NoRegex = true
	s.Exprs = genExprs(g, r.Range(1, 4), ok, func() (*E, bool, bool) {
		if r.Chance(1, 2) {
			return g.Flat(), true, true
		}
		return g.NodeSet(g.MaxDepth), false, true
	})
	if nsRun {
		namespaceRun(r, s, ok, true)
	}
	nsteps := r.Range(6, 50)
	w := []int{r.Range(2, 6), r.Range(2, 6), r.Range(6, 16), r.Range(1, 5), r.Range(1, 5), r.Range(1, 4), r.Range(0, 2), r.Range(1, 4), 0}
	if r.Chance(1, 8) {
		w[8] = r.Range(1, 3) // gc
		w[6] += 3            // after abandoning iterators
	}
	for i := 0; i < nsteps; i++ {
		st := Step{E: r.Intn(len(s.Exprs)), D: r.Intn(len(s.Docs)), H: r.Intn(1000)}
		st.C = ctxFor(r, s.Docs, st.D)
		switch r.Weighted(w) {
		case 0:
			st.Op = "select"
		case 1:
			st.Op = "eval"
		case 2:
			st.Op = "next"
			st.N = r.Weighted([]int{0, 8, 3, 2, 1})
		case 3:
			st.Op = "current"
		case 4:
			st.Op = "wander"
			st.N = r.Range(1, 6)
		case 5:
			st.Op = "extra"
			st.N = r.Range(1, 5)
			if r.Chance(1, 12) {
				st.N = []int{130, 260, 300, 520}[r.Intn(4)] // size stratum: counters that wrap
			}
			if r.Chance(1, 150) {
				st.N = 66000 // ... 16-bit ones too
			}
		case 6:
			st.Op = "abandon"
		case 7:
			st.Op = "rel"
		case 8:
			st.Op = "gc"
		}
		s.Steps = append(s.Steps, st)
	}
	if s.Cfg.NS && r.Chance(1, 2) {
		at := r.Intn(len(s.Steps) + 1)
		s.Steps = append(s.Steps[:at:at], append([]Step{{Op: "nsrebind"}}, s.Steps[at:]...)...)
	}
	if r.Chance(1, 8) {
		// warm-up: the relations of one expression are checked many times in a row
		d := r.Intn(len(s.Docs))
		at := r.Intn(len(s.Steps) + 1)
		w := Step{Op: "rel", E: r.Intn(len(s.Exprs)), D: d, C: ctxFor(r, s.Docs, d), Rep: pickRep(r, 300)}
		s.Steps = append(s.Steps[:at:at], append([]Step{w}, s.Steps[at:]...)...)
	}
	// every expression gets its relations checked at least once, from the root
	// and from one random node
	for i := range s.Exprs {
		for k := 0; k < 2; k++ {
			d := r.Intn(len(s.Docs))
			s.Steps = append(s.Steps, Step{Op: "rel", E: i, D: d, C: ctxFor(r, s.Docs, d)})
		}
		s.Steps = append(s.Steps, Step{Op: "rel", E: i, D: r.Intn(len(s.Docs)), C: 0})
		d := r.Intn(len(s.Docs))
		s.Steps = append(s.Steps, Step{Op: "rel", E: i, D: d, C: ctxFor(r, s.Docs, d)})
	}
	return s
}

// regex material for C16 ----------------------------------------------------

var rxAtoms = []string{"a", "b", "c", "d", ".", "[ab]", "[^a]", "[a-c]", "a", "b", "é", "[éa]"}

// GenRegex draws a pattern over a 4-letter alphabet with up to 3 groups;
// some patterns are invalid on purpose.
func GenRegex(r *Rng) string {
	if r.Chance(1, 10) {
		return r.Pick([]string{"(", "a(", "[a", "a**", "(?P<n", "a{2,1}", "\\", "(?z)a", "*a", ")", RawFF, "a" + RawFF + "b"})
	}
	if r.Chance(1, 40) {
		return r.Pick([]string{"\uFFFD", "a\uFFFD", "\uFFFD+", "[\uFFFDa]"}) // the replacement character, valid in a pattern
	}
	if r.Chance(1, 12) {
		// literal text with anchors in usual and unusual (but legal) places
		out := ""
		for n := r.Range(1, 4); n > 0; n-- {
			switch r.Weighted([]int{6, 1, 1}) {
			case 0:
				out += string("abcd"[r.Intn(4)])
			case 1:
				out += "^"
			default:
				out += "$"
			}
		}
		return out
	}
	if r.Chance(1, 30) {
		// size stratum: many capture groups (two-digit group references)
		n := []int{10, 12, 17, 18, 20}[r.Intn(5)]
		p := ""
		for i := 0; i < n; i++ {
			p += "(" + string("abcd"[i%4]) + ")?"
		}
		return p
	}
	if r.Chance(1, 25) {
		// patterns made of quote characters (one kind only, so that an XPath 1.0 literal can hold them)
		return r.Pick([]string{"'", "''", "\"", "\"\"", "a'", "'b'"})
	}
	groups := 0
	var gen func(d int) string
	gen = func(d int) string {
		n := r.Range(1, 3)
		out := ""
		for i := 0; i < n; i++ {
			var a string
			if d > 0 && groups < 3 && r.Chance(1, 3) {
				groups++
				a = "(" + gen(d-1)
				if r.Chance(1, 3) {
					a += "|" + gen(d-1)
				}
				a += ")"
			} else {
				a = r.Pick(rxAtoms)
			}
			switch r.Weighted([]int{6, 1, 1, 1}) {
			case 1:
				a += "*"
			case 2:
				a += "+"
			case 3:
				a += "?"
			}
			out += a
		}
		return out
	}
	p := gen(2)
	if r.Chance(1, 6) {
		// a bare top-level alternation, possibly of plain literals
		if r.Chance(1, 2) {
			p = r.Pick([]string{"a", "b", "ab", "c", "bc", "d"}) + "|" + r.Pick([]string{"a", "b", "ba", "c", "cd", "-"})
		} else {
			p = p + "|" + gen(1)
		}
	}
	if r.Chance(1, 8) {
		p = "^" + p
	}
	if r.Chance(1, 8) {
		p += "$"
	}
	return p
}

func countGroups(p string) int {
	n := 0
	for i := 0; i < len(p); i++ {
		if p[i] == '(' && !(i+1 < len(p) && p[i+1] == '?') {
			n++
		}
	}
	return n
}

// RawFF stands, in the K / S / R strings of regex steps, for the single byte
// 0xFF - text that is not valid UTF-8. (Scenarios travel as JSON, which cannot
// carry such a byte; the executor substitutes it with Raw.)
const RawFF = "\uE0FF"

// Raw replaces the RawFF marker by the byte it stands for.
func Raw(s string) string { return strings.ReplaceAll(s, RawFF, "\xff") }

func genSubject(r *Rng) string {
	n := r.Range(0, 6)
	out := ""
	for i := 0; i < n; i++ {
		if r.Chance(1, 60) {
			out += RawFF // a byte that is not valid UTF-8
			continue
		}
		if r.Chance(1, 12) {
			out += r.Pick([]string{"é", "中", "ü"}) // multi-byte characters
		} else if r.Chance(1, 25) {
			out += "'" // a quote character (only this kind in subjects, see q())
		} else {
			out += string("abcd"[r.Intn(4)])
		}
	}
	return out
}

// ReplPool: replacement strings shared between operations. Depending on the
// pattern's group count some of them name a group the pattern does not have;
// the executor then runs the call but does not judge its result (the statement
// is silent there) - such a call is legal history for the calls that follow.
var ReplPool = []string{"$1$2x", "<$1$2x>", "$2y$1", "[$10]", "$1x", "$3z$1", "$2$1", "$1", "$2 é $1", "é$1", "[$17]", "$12-$2", "$17$1"}

func genRepl(r *Rng, groups int) string {
	if groups >= 10 && r.Chance(1, 2) {
		// size stratum: many references, one- and two-digit ones mixed
		out := ""
		for k := r.Range(8, 20); k > 0; k-- {
			out += "$" + strconv.Itoa(r.Range(1, groups))
			out += r.Pick([]string{"", "-", "x", " ", "."})
		}
		return out
	}
	if r.Chance(1, 3) {
		return r.Pick(ReplPool)
	}
	out := ""
	for k := r.Range(0, 3); k > 0; k-- {
		if groups > 0 && r.Chance(1, 2) {
			// $n with 1 <= n <= groups, never directly followed by a digit
			out += "$" + string(rune('0'+r.Range(1, groups)))
			if r.Chance(1, 2) {
				out += r.Pick([]string{"x", "-", "_", "y", "é", " é "})
			}
		} else {
			out += r.Pick([]string{"x", "-", "y", "ab", "", "é", "中"})
		}
	}
	return out
}

func genCacheOps(r *Rng, n int, keys []string, faults bool) []Step {
	var out []Step
	w := []int{r.Range(4, 12), r.Range(2, 8), r.Range(2, 8), r.Range(1, 3)}
	for i := 0; i < n; i++ {
		k := keys[r.Intn(len(keys))]
		switch r.Weighted(w) {
		case 0:
			st := Step{Op: "get", K: k}
			if faults && r.Chance(1, 6) {
				st.Fail = true
			}
			// (a panicking client loader - Step.Panic - is implemented but not
			// generated: the statement is about loads that fail, not about loaders
			// that panic, and a correct single-flight cache wedges on the latter)
			out = append(out, st)
		case 1:
			st := Step{Op: "matches", S: genSubject(r), K: k, Src: r.Pick([]string{"const", "const", "concat", "nodeset"})}
			out = append(out, st)
		case 2:
			out = append(out, Step{Op: "replace", S: genSubject(r), K: k, R: genRepl(r, countGroups(k)), Src: r.Pick([]string{"const", "concat", "const", "emptyset"})})
		case 3:
			switch r.Intn(4) {
			case 0:
				// history noise: evaluations that use the package's other shared resources
				// (the builder pool) and end in one of the package's own panics half-way
				out = append(out, Step{Op: "noise", N: r.Intn(6), S: genSubject(r)})
			case 1:
				// a numeric constant where a pattern is expected
				out = append(out, Step{Op: "numpat", N: r.Intn(3)})
			default:
				out = append(out, Step{Op: "compilebad", N: r.Intn(64), K: r.Pick([]string{"(", "a(", "[a", "a**", "(?P<n", "\\", ")", "a)", "(a", RawFF, "b" + RawFF})})
			}
		}
	}
	return out
}

func genKeys(r *Rng) []string {
	n := r.Range(2, 8)
	if r.Chance(1, 12) {
		n = r.Range(9, 20) // size stratum: many distinct patterns
	}
	seen := map[string]bool{}
	var keys []string
	for len(keys) < n {
		k := GenRegex(r)
		if r.Chance(1, 40) {
			k = LongPattern(r)
		}
		if !seen[k] {
			seen[k] = true
			keys = append(keys, k)
		}
	}
	return keys
}

// GenC16H draws a sequential key history against a client cache of small
// capacity, mixed with matches()/replace() evaluations through the global
// cache.
func GenC16H(seed, run uint64) *Scenario {
	r := NewRng(seed, HashString("C16H"), run)
	s := &Scenario{Prop: "C16", Mode: "H", Seed: seed, Run: run}
	s.Cfg = Config{CacheCap: r.Range(0, 5), PoolMode: r.Intn(2), Faults: !r.Chance(1, 4)}
	if r.Chance(1, 6) {
		s.Cfg.CacheCap = -1
	}
	if r.Chance(1, 12) {
		s.Cfg.CacheCap = []int{7, 8, 9, 15, 16, 17}[r.Intn(6)] // size stratum: capacities around powers of two
	}
	keys := genKeys(r)
	nops := r.Range(5, 60)
	if len(keys) > 8 {
		nops = r.Range(40, 120)
	}
	s.Steps = genCacheOps(r, nops, keys, s.Cfg.Faults)
	// a small document whose element names double as patterns, for predicates
	// whose pattern comes from the context node: //*[matches(@k, local-name())]
	doc := DocSpec{}
	top := &NodeSpec{K: "e", N: "r"}
	for n := r.Range(2, 6); n > 0; n-- {
		e := &NodeSpec{K: "e", N: r.Pick([]string{"a", "b", "ab", "c", "ba", "d"})}
		if r.Chance(4, 5) {
			e.A = append(e.A, [2]string{"k", genSubject(r)})
		}
		if r.Chance(2, 3) {
			e.C = append(e.C, &NodeSpec{K: "t", V: genSubject(r)}) // a string value for self::name subjects
		}
		// operands for expressions evaluated from one element after the other
		// ("pernode" steps): a prefixed attribute sharing k's local name, a
		// pattern attribute, text that only descendants carry
		if r.Chance(1, 3) {
			xk := [2]string{"x:k", genSubject(r)}
			if r.Chance(1, 2) {
				e.A = append([][2]string{xk}, e.A...)
			} else {
				e.A = append(e.A, xk)
			}
		}
		if r.Chance(1, 2) {
			e.A = append(e.A, [2]string{"p", keys[r.Intn(len(keys))]})
		}
		if r.Chance(1, 3) {
			w := &NodeSpec{K: "e", N: "w", C: []*NodeSpec{{K: "t", V: genSubject(r)}}}
			if r.Chance(1, 2) {
				w = &NodeSpec{K: "e", N: "v", C: []*NodeSpec{w}}
			}
			e.C = append(e.C, w)
		}
		top.C = append(top.C, e)
	}
	doc.C = []*NodeSpec{top}
	if r.Chance(1, 6) {
		doc.ShallowValue = true
	}
	s.Docs = []DocSpec{doc}
	for n := r.Weighted([]int{2, 3, 2, 1}); n > 0; n-- {
		at := r.Intn(len(s.Steps) + 1)
		k := keys[r.Intn(len(keys))]
		st := Step{Op: "pernode", N: r.Intn(7), K: k, R: genRepl(r, countGroups(k)), C: r.Intn(14)}
		if st.N == 2 && r.Chance(2, 3) {
			st.R = r.Pick([]string{"$1st", "<$1>", "$1$2", "x$1", "$2-$1"}) // names a group: only some of the nodes' patterns have it
		}
		s.Steps = append(s.Steps[:at:at], append([]Step{st}, s.Steps[at:]...)...)
	}
	for n := r.Weighted([]int{2, 3, 2}); n > 0; n-- {
		at := r.Intn(len(s.Steps) + 1)
		st := Step{Op: "matchnodes", N: r.Intn(5), K: keys[r.Intn(len(keys))]}
		s.Steps = append(s.Steps[:at:at], append([]Step{st}, s.Steps[at:]...)...)
	}
	if r.Chance(1, 6) {
		// warm-up: one operation repeated many times (hit counters, promotion thresholds)
		for k := r.Range(1, 2); k > 0; k-- {
			i := r.Intn(len(s.Steps))
			if op := s.Steps[i].Op; op == "get" || op == "matches" || op == "replace" || op == "pernode" {
				s.Steps[i].Rep = pickRep(r, 1100)
				if op == "pernode" && s.Steps[i].Rep > 130 {
					s.Steps[i].Rep = 129
				}
			}
		}
	}
	if s.Cfg.Faults {
		// cache-swap mid-run
		for k := r.Weighted([]int{3, 2, 1}); k > 0 && len(s.Steps) > 0; k-- {
			at := r.Intn(len(s.Steps) + 1)
			sw := Step{Op: "swapcache", N: r.Range(0, 5)}
			s.Steps = append(s.Steps[:at:at], append([]Step{sw}, s.Steps[at:]...)...)
		}
	}
	return s
}

func gCfg(r *Rng, c *Config) {
	c.Strategy = []string{"walk", "pct"}[r.Intn(2)]
	c.SwitchDen = []int{2, 3, 4, 8, 16, 32, 64}[r.Intn(7)]
	c.Preempts = r.Range(0, 6)
	c.Yields = YAll
	if r.Chance(1, 2) {
		// swarm: enable a random non-empty subset of yield kinds
		c.Yields = 0
		for c.Yields == 0 {
			c.Yields = r.Intn(YAll + 1)
		}
	}
	if r.Chance(1, 3) {
		c.LoadSlow = r.Range(1, 4)
	}
	c.SyncBias = r.Chance(1, 3)
}

// GenC16G draws a concurrent key workload.
func GenC16G(seed, run uint64) *Scenario {
	r := NewRng(seed, HashString("C16G"), run)
	s := &Scenario{Prop: "C16", Mode: "G", Seed: seed, Run: run}
	s.Cfg = Config{CacheCap: r.Range(0, 5), PoolMode: r.Intn(2), Faults: !r.Chance(1, 4)}
	if r.Chance(1, 8) {
		s.Cfg.CacheCap = -1
	}
	gCfg(r, &s.Cfg)
	s.Cfg.Yields |= YLock | YLoad
	keys := genKeys(r)
	big := r.Chance(1, 8) // size stratum: capacities around 8 / 16, more keys than capacity, more callers
	if big {
		s.Cfg.CacheCap = []int{8, 9, 16}[r.Intn(3)]
		for len(keys) < s.Cfg.CacheCap+4 {
			k := GenRegex(r)
			dup := false
			for _, o := range keys {
				dup = dup || o == k
			}
			if !dup {
				keys = append(keys, k)
			}
		}
	} else if len(keys) > 5 {
		keys = keys[:5]
	}
	nt := r.Range(2, 4)
	if big {
		nt = r.Range(3, 6)
	}
	for t := 0; t < nt; t++ {
		n := r.Range(2, 12)
		if big {
			n = r.Range(10, 30)
		}
		s.Tasks = append(s.Tasks, genCacheOps(r, n, keys, s.Cfg.Faults))
	}
	if r.Chance(1, 4) {
		// one compiled expression whose pattern comes from the context node,
		// shared by the tasks, each applying it to elements of a small document
		// ("pnode" operations; N = element, R = which of the shared expressions)
		top := &NodeSpec{K: "e", N: "r"}
		for n := r.Range(3, 6); n > 0; n-- {
			top.C = append(top.C, &NodeSpec{K: "e", N: "a", A: [][2]string{{"k", genSubject(r)}, {"p", keys[r.Intn(len(keys))]}}})
		}
		s.Docs = []DocSpec{{C: []*NodeSpec{top}}}
		which := r.Intn(2)
		for t := range s.Tasks {
			for k := r.Range(1, 4); k > 0; k-- {
				at := r.Intn(len(s.Tasks[t]) + 1)
				st := Step{Op: "pnode", N: r.Intn(len(top.C)), C: which}
				if r.Chance(1, 3) {
					st.Rep = r.Range(2, 12)
				}
				s.Tasks[t] = append(s.Tasks[t][:at:at], append([]Step{st}, s.Tasks[t][at:]...)...)
			}
		}
	}
	if r.Chance(1, 8) {
		// warm-up: every task repeats one of its operations many times
		for t := range s.Tasks {
			i := r.Intn(len(s.Tasks[t]))
			if op := s.Tasks[t][i].Op; op == "get" || op == "matches" || op == "replace" {
				s.Tasks[t][i].Rep = pickRep(r, 70)
			}
		}
	}
	s.SchedSeed = r.U64()
	return s
}

// GenC05 draws a goroutine workload on shared compiled expressions.
func GenC05(seed, run uint64, ok CompileOK) *Scenario {
	r := NewRng(seed, HashString("C05"), run)
	s := &Scenario{Prop: "C05", Mode: "G", Seed: seed, Run: run, Cfg: baseCfg(r)}
	gCfg(r, &s.Cfg)
	s.Docs = genDocs(r, r.Range(4, 22))
	g := NewGen(r)
	g.UseDocs(s.Docs)
	g.StackPos = true
	regexRun := r.Chance(1, 4)
	crowdConcat := !regexRun && r.Chance(1, 40) // a crowd of callers (below) all in concat(): its pooled builders
	g.LongTexts = regexRun
	longPats := regexRun && r.Chance(1, 5) // size stratum: patterns of 300-700 bytes
	if regexRun {
		// swarm: a run about concurrent use of the regular-expression functions:
		// several expressions, each built around matches()/replace() with its own pattern
		s.Exprs = genExprs(g, r.Range(2, 4), ok, func() (*E, bool, bool) {
			pat := &E{Op: "str", S: r.Pick(g.Patterns[:11])}
			if longPats {
				pat.S = LongPattern(r)
			} else if r.Chance(1, 2) {
				// a pattern only known at evaluation time: an attribute of the context
				// node (different context nodes, different patterns at one call site)
				pat = &E{Op: "fn", S: "string", Kids: []*E{{Op: "path", Kids: []*E{{Op: "step", S: "attribute", T: g.attrName(), Abbr: true}}}}}
			}
			subj := g.strArg(1)
			if r.Chance(1, 2) {
				subj = &E{Op: "str", S: r.Pick([]string{"a", "ab", "abc", "b", "ba", "aab", "1", ""})}
			}
			if r.Chance(1, 3) {
				return &E{Op: "fn", S: "replace", Kids: []*E{subj, pat, {Op: "str", S: r.Pick([]string{"x", "", "[$1]", "-"})}}}, false, false
			}
			return &E{Op: "fn", S: "matches", Kids: []*E{subj, pat}}, false, false
		})
	} else {
		if r.Chance(1, 5) {
			g.FocusFn = r.Pick(FocusFuncs)
		}
		if crowdConcat {
			g.FocusFn = "concat"
		}
		s.Exprs = genExprs(g, r.Range(1, 4), ok, func() (*E, bool, bool) { return g.Top(), false, false })
	}
	s.Cfg.ColdProcess = r.Chance(1, 5)
	compileStorm := !crowdConcat && r.Chance(1, 6) // a run about concurrent Compile / CompileWithNS calls only
	if compileStorm {
		if r.Chance(1, 2) {
			s.Cfg.ColdProcess = true // half of the compile storms meet a package in which nothing was ever compiled
		}
		// texts with zero-argument function forms (the builder supplies their default argument)
		for k := r.Range(0, 2); k > 0; k-- {
			t := r.Pick([]string{"normalize-space()", "//*[normalize-space() = 'a']", "name()", "//a[name() = local-name()]",
				"string-length(normalize-space())", "//*[position() = last()]", "concat(name(), '-', local-name())", "namespace-uri()"})
			if ok == nil || ok(t) {
				s.Exprs = append(s.Exprs, ExprSpec{Text: t})
			}
		}
		if r.Chance(1, 3) {
			// names the process has not scanned before: non-ASCII letters, different ones per text
			pool := []string{"é", "ü", "名", "前", "ж", "λ", "ñ", "ø", "字", "π", "ß", "ç"}
			for k := r.Range(2, 4); k > 0; k-- {
				a, b := r.Pick(pool), r.Pick(pool)
				t := r.Pick([]string{"//" + a + "/" + b, "//" + a + "[@" + b + "]", "count(//" + a + b + ")", a + "/" + b + "/@" + a})
				if ok == nil || ok(t) {
					s.Exprs = append(s.Exprs, ExprSpec{Text: t})
				}
			}
		}
		s.Cfg.NS = r.Chance(1, 2)
		s.Cfg.NSRebind = s.Cfg.NS && r.Chance(1, 2)
		if s.Cfg.NS {
			// namespaces must matter in such a run: the first document gets elements
			// in both namespaces and some expressions are plain prefixed name tests
			top := s.Docs[0].C[len(s.Docs[0].C)-1]
			top.C = append(top.C, &NodeSpec{K: "e", N: "x:a", NS: "urn:x", A: [][2]string{{"id", "1"}}}, &NodeSpec{K: "e", N: "y:b", NS: "urn:y"},
				&NodeSpec{K: "e", N: "x:a", NS: "urn:y"})
			for k := r.Range(1, 2); k > 0; k-- {
				t := r.Pick([]string{"//x:a", "//y:b", "count(//x:a)", "//x:a/@id", "//*[self::x:a]", "//x:a | //y:b"})
				if ok == nil || ok(t) {
					s.Exprs = append(s.Exprs, ExprSpec{Text: t})
				}
			}
		}
	}
	failE := -1
	if compileStorm && r.Chance(1, 2) {
		// texts that parse but are refused while the query is built (and one that
		// trips the nesting guard): failed Compile calls are history too
		t := r.Pick([]string{"contains()", "count()", "foo(1)", "substring('a')", "matches(.)", "//a[contains()]", "concat('a')", "not()", "DEEP"})
		if t == "DEEP" {
			t = strings.Repeat("(", 1100) + "1" + strings.Repeat(")", 1100)
		}
		s.Exprs = append(s.Exprs, ExprSpec{Text: t})
		failE = len(s.Exprs) - 1
	}
	longRun := !compileStorm && r.Chance(1, 10)
	if longRun {
		n0 := len(s.Exprs)
		longValueRun(r, s, ok)
		if len(s.Exprs) > n0 && r.Chance(2, 3) {
			s.Exprs = s.Exprs[n0:] // only those
		}
	}
	mixedNavs := false
	if s.Cfg.NS && r.Chance(1, 2) {
		// namespaces matter in this run: two documents with elements in both
		// namespaces, navigated through the two navigator implementations, and a
		// few plain prefixed name tests among the expressions
		namespaceRun(r, s, ok, false)
		if !s.Docs[0].NoNS && !s.Docs[1].NoNS && r.Chance(2, 3) {
			s.Docs[r.Intn(2)].NoNS = true
		}
		mixedNavs = true
	}
	nt := r.Range(2, 4)
	if r.Chance(1, 15) {
		nt = r.Range(5, 6) // size stratum: more callers
	}
	crowd := !compileStorm && (r.Chance(1, 25) || crowdConcat)
	if crowd {
		nt = r.Range(9, 12) // size stratum: a crowd of callers, one or two short operations each (fixed-size tables of 8)
	}
	// tasks collide on purpose: a "hot" (expression, document, context) that
	// most operations use
	hotE, hotD := r.Intn(len(s.Exprs)), r.Intn(len(s.Docs))
	if hotE == failE && failE > 0 {
		hotE = 0
	}
	hotC := ctxFor(r, s.Docs, hotD)
	for t := 0; t < nt; t++ {
		var ops []Step
		nops := r.Range(1, 6)
		if crowd {
			nops = r.Range(1, 2)
		}
		for k := nops; k > 0; k-- {
			st := Step{E: hotE, D: hotD, C: hotC}
			if r.Chance(1, 3) || regexRun {
				st.E = r.Intn(len(s.Exprs))
			}
			if mixedNavs {
				st.E = r.Intn(len(s.Exprs))
				st.D, st.C = r.Intn(2), 0
			}
			if longRun {
				st.E = r.Intn(len(s.Exprs))
				st.D, st.C = r.Intn(len(s.Docs)), 0
			}
			if r.Chance(1, 4) {
				st.D = r.Intn(len(s.Docs))
				st.C = ctxFor(r, s.Docs, st.D)
			}
			switch r.Weighted([]int{5, 6, 2, 1}) {
			case 0:
				st.Op = "select"
				if r.Chance(1, 4) {
					st.N = r.Range(1, 3) // take a prefix only
				}
			case 1:
				st.Op = "eval"
			case 2:
				st.Op = "compile" // compile the text concurrently, then use it once (2 = through the deprecated package-level Select)
				st.N = r.Intn(3)
			case 3:
				st.Op = "mustbad"
			}
			if compileStorm && st.Op != "mustbad" {
				st.Op, st.N = "compile", r.Intn(3) // 2: through the deprecated package-level Select
			}
			if s.Cfg.Faults && st.Op != "mustbad" && r.Chance(1, 10) {
				st.Crash = r.Range(1, 30) // this operation's navigator fails half-way; the others must not notice
			}
			ops = append(ops, st)
		}
		s.Tasks = append(s.Tasks, ops)
	}
	if failE >= 0 {
		for k := r.Range(1, 2); k > 0; k-- {
			t := r.Intn(len(s.Tasks))
			at := r.Intn(len(s.Tasks[t]) + 1)
			st := Step{Op: "compile", E: failE, N: 1, Rep: pickRep(r, 1100)}
			s.Tasks[t] = append(s.Tasks[t][:at:at], append([]Step{st}, s.Tasks[t][at:]...)...)
		}
	}
	if r.Chance(1, 10) {
		// gc: garbage collections between the operations of some tasks
		for t := range s.Tasks {
			if r.Chance(1, 2) {
				at := r.Intn(len(s.Tasks[t]) + 1)
				s.Tasks[t] = append(s.Tasks[t][:at:at], append([]Step{{Op: "gc"}}, s.Tasks[t][at:]...)...)
			}
		}
	}
	if r.Chance(1, 4) {
		// warm-up: every task repeats one of its evaluations many times
		// (on the hot expression: code that adapts to a much-used Expr has to cope
		// with several goroutines crossing its threshold together)
		// - in half of these runs; in the other half every task warms up whatever
		// its operation uses: several expressions, patterns, documents get hot)
		op := r.Pick([]string{"eval", "eval", "eval", "select"})
		sameHot := r.Chance(1, 2)
		for t := range s.Tasks {
			i := r.Intn(len(s.Tasks[t]))
			st := &s.Tasks[t][i]
			if compileStorm || st.Op == "mustbad" || st.Op == "gc" {
				continue
			}
			st.Crash = 0
			if sameHot {
				st.Op, st.N = op, 0
				st.E, st.D, st.C = hotE, hotD, hotC
			} else if st.Op == "compile" {
				st.Op, st.N = "eval", 0
			}
			st.Rep = pickRep(r, 130)
			if r.Chance(1, 2) {
				st.Rep = []int{33, 64, 65, 100, 129}[r.Intn(5)]
			}
		}
	}
	s.SchedSeed = r.U64()
	return s
}
