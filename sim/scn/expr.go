package scn

import (
	"strconv"
	"strings"
)

// E is a node of a generated XPath expression. Expressions are kept as trees
// (not only text) so that a failing scenario can be minimised structurally.
type E struct {
	Op   string  `json:"op"`            // num str fn bin neg group path step seq
	S    string  `json:"s,omitempty"`   // str: value; fn: name; bin: operator; path: lead ("", "/", "//"); step: axis
	T    string  `json:"t,omitempty"`   // step: node test
	Sep  string  `json:"sep,omitempty"` // step: separator written before it when it is not first ("/" or "//")
	Abbr bool    `json:"abbr,omitempty"`
	F    float64 `json:"f,omitempty"` // num
	Kids []*E    `json:"kids,omitempty"`
	// path: Kids = optional primary (group / fn / seq as first) then steps
	// step: Kids = predicates
	// group: Kids[0] = inner, Kids[1:] = predicates applied to the group
}

func (e *E) Clone() *E {
	if e == nil {
		return nil
	}
	c := *e
	c.Kids = make([]*E, len(e.Kids))
	for i, k := range e.Kids {
		c.Kids[i] = k.Clone()
	}
	return &c
}

func (e *E) Size() int {
	n := 1
	for _, k := range e.Kids {
		n += k.Size()
	}
	return n
}

func (e *E) String() string {
	var b strings.Builder
	e.write(&b)
	return b.String()
}

func quote(s string) string {
	if !strings.Contains(s, "'") {
		return "'" + s + "'"
	}
	return "\"" + strings.ReplaceAll(s, "\"", "") + "\""
}

// writeOperand parenthesises nested operators so that text and tree agree.
func (e *E) writeOperand(b *strings.Builder) {
	if e.Op == "bin" || e.Op == "neg" {
		b.WriteByte('(')
		e.write(b)
		b.WriteByte(')')
		return
	}
	e.write(b)
}

func (e *E) write(b *strings.Builder) {
	switch e.Op {
	case "num":
		t := strconv.FormatFloat(e.F, 'f', -1, 64)
		if e.Abbr && strings.HasPrefix(t, "0.") {
			t = t[1:] // ".5": the scanner's fraction-only form
		}
		b.WriteString(t)
	case "var":
		b.WriteString("$" + e.S)
	case "str":
		b.WriteString(quote(e.S))
	case "fn":
		b.WriteString(e.S)
		b.WriteByte('(')
		for i, k := range e.Kids {
			if i > 0 {
				b.WriteString(", ")
			}
			k.write(b)
		}
		b.WriteByte(')')
	case "bin":
		e.Kids[0].writeOperand(b)
		b.WriteByte(' ')
		b.WriteString(e.S)
		b.WriteByte(' ')
		e.Kids[1].writeOperand(b)
	case "neg":
		b.WriteByte('-')
		e.Kids[0].writeOperand(b)
	case "group":
		b.WriteByte('(')
		e.Kids[0].write(b)
		b.WriteByte(')')
		for _, p := range e.Kids[1:] {
			b.WriteByte('[')
			p.write(b)
			b.WriteByte(']')
		}
	case "seq":
		b.WriteByte('(')
		for i, k := range e.Kids {
			if i > 0 {
				b.WriteString(", ")
			}
			k.write(b)
		}
		b.WriteByte(')')
	case "path":
		b.WriteString(e.S)
		for i, k := range e.Kids {
			if i > 0 {
				sep := k.Sep
				if sep == "" {
					sep = "/"
				}
				b.WriteString(sep)
			}
			k.write(b)
		}
	case "step":
		switch {
		case e.Abbr && e.S == "self" && e.T == "node()":
			b.WriteByte('.')
		case e.Abbr && e.S == "parent" && e.T == "node()":
			b.WriteString("..")
		case e.Abbr && e.S == "attribute":
			b.WriteByte('@')
			b.WriteString(e.T)
		case e.Abbr && e.S == "child":
			b.WriteString(e.T)
		default:
			b.WriteString(e.S)
			b.WriteString("::")
			b.WriteString(e.T)
		}
		for _, p := range e.Kids {
			b.WriteByte('[')
			p.write(b)
			b.WriteByte(']')
		}
	}
}

// ---------------------------------------------------------------------------
// generation

// Repls are replacement strings for replace(); some name groups a pattern may
// not have and put a word character right after $n - for C04/C05 the oracle is
// the engine itself, so such inputs are as good as any.
var Repls = []string{"", "x", "$1", "[$1]", "$2$1", "$0", "$2x$1", "$1$2y", "<$1$2x>", "[$10]", "$1-$2"}

var Axes = []string{"child", "descendant", "descendant-or-self", "parent", "ancestor", "ancestor-or-self",
	"following", "following-sibling", "preceding", "preceding-sibling", "self", "attribute"}

// Gen generates expressions. Weights are swarm-randomised per run by NewGen.
type Gen struct {
	R        *Rng
	MaxDepth int
	// relative weights, drawn per run
	wAxis    []int
	wRegex   int // how often regex functions appear among string/boolean functions
	wIllType int // out of 100: chance to plug an expression of the wrong type
	Patterns []string
	NoRegex  bool
	// names that actually occur in the scenario's documents (preferred, so
	// that paths select something)
	DocNames, DocAttrs []string
	// FocusFn: a focus run builds most expressions around this function
	FocusFn string
	// StackPos: flat paths may carry a positional predicate after boolean ones
	// (used by C04 / C05; C12's flat fragment does not allow it)
	StackPos bool
	// LongTexts: expression texts may exceed 400 bytes (long constant patterns)
	LongTexts bool
}

func NewGen(r *Rng) *Gen {
	g := &Gen{R: r, MaxDepth: r.Range(2, 4)}
	g.wAxis = make([]int, len(Axes))
	for i := range Axes {
		g.wAxis[i] = r.Range(0, 3)
	}
	g.wAxis[0] += r.Range(2, 8) // child
	g.wAxis[11] += r.Range(0, 3)
	g.wRegex = r.Range(0, 6)
	g.wIllType = r.Range(0, 12)
	g.Patterns = []string{"a", "a+", "^a", "b$", "[ab]+", "(a)(b)", "a|b", "(a|b)c", ".", "\\d+", "a*", "(", "[a", "a{2}", "(?i)abc", "x?", "(a)", "(.)(.)", "(a)(b)?(c)?"}
	return g
}

func (g *Gen) name() string {
	if len(g.DocNames) > 0 && g.R.Chance(4, 5) {
		return g.R.Pick(g.DocNames)
	}
	return g.R.Pick(ElemNames)
}

func (g *Gen) attrName() string {
	if len(g.DocAttrs) > 0 && g.R.Chance(4, 5) {
		return g.R.Pick(g.DocAttrs)
	}
	return g.R.Pick(AttrNames)
}

// UseDocs records the element and attribute names occurring in docs.
func (g *Gen) UseDocs(docs []DocSpec) {
	seenE, seenA := map[string]bool{}, map[string]bool{}
	var walk func(x *NodeSpec)
	walk = func(x *NodeSpec) {
		if x.K == "e" && !seenE[x.N] {
			seenE[x.N] = true
			g.DocNames = append(g.DocNames, x.N)
		}
		for _, a := range x.A {
			if !seenA[a[0]] {
				seenA[a[0]] = true
				g.DocAttrs = append(g.DocAttrs, a[0])
			}
		}
		for _, c := range x.C {
			walk(c)
		}
	}
	for i := range docs {
		for _, c := range docs[i].C {
			walk(c)
		}
	}
}

func (g *Gen) nodeTest(axis string) string {
	if axis == "attribute" {
		if g.R.Chance(1, 4) {
			return "*"
		}
		return g.attrName()
	}
	switch g.R.Weighted([]int{8, 3, 2, 2, 1}) {
	case 0:
		return g.name()
	case 1:
		return "*"
	case 2:
		return "node()"
	case 3:
		return "text()"
	default:
		return "comment()"
	}
}

func (g *Gen) step(depth int, first bool) *E {
	r := g.R
	axis := Axes[r.Weighted(g.wAxis)]
	s := &E{Op: "step", S: axis, T: g.nodeTest(axis), Sep: "/"}
	if !first && r.Chance(1, 6) {
		s.Sep = "//"
	}
	switch axis {
	case "child", "attribute":
		s.Abbr = r.Chance(5, 6)
	case "self", "parent":
		if r.Chance(1, 2) {
			s.T = "node()"
			s.Abbr = true
		}
	}
	if depth > 0 {
		np := r.Weighted([]int{10, 5, 2})
		for i := 0; i < np; i++ {
			s.Kids = append(s.Kids, g.Pred(depth-1))
		}
		if np == 2 && r.Chance(1, 2) {
			// stacked predicates: a boolean filter followed by a positional one, or the other way round
			b, p := g.flatBoolPred(), g.flatPosPred()
			if r.Chance(1, 2) {
				s.Kids = []*E{b, p}
			} else {
				s.Kids = []*E{p, b}
			}
		}
	}
	return s
}

// Path generates a location path.
func (g *Gen) Path(depth int) *E {
	r := g.R
	p := &E{Op: "path", S: []string{"", "", "", "/", "//", "//"}[r.Intn(6)]}
	n := r.Weighted([]int{0, 6, 5, 2, 1})
	if p.S == "/" && r.Chance(1, 10) {
		return p // bare "/"
	}
	if r.Chance(1, 10) && depth > 0 {
		// FilterExpr '/' RelativeLocationPath
		p.S = ""
		p.Kids = append(p.Kids, g.primaryNS(depth-1))
	}
	for i := 0; i < n; i++ {
		if i > 0 && r.Chance(1, 14) {
			// sequence step  path/(a, b)
			sq := &E{Op: "seq", Sep: "/"}
			for k := r.Range(1, 3); k > 0; k-- {
				sq.Kids = append(sq.Kids, g.step(0, true))
			}
			p.Kids = append(p.Kids, sq)
			continue
		}
		p.Kids = append(p.Kids, g.step(depth, len(p.Kids) == 0))
	}
	return p
}

func (g *Gen) primaryNS(depth int) *E {
	r := g.R
	if r.Chance(1, 4) {
		return &E{Op: "fn", S: "reverse", Kids: []*E{g.NodeSet(depth)}}
	}
	grp := &E{Op: "group", Kids: []*E{g.NodeSet(depth)}}
	if r.Chance(1, 2) {
		grp.Kids = append(grp.Kids, g.Pred(depth))
	}
	return grp
}

// NodeSet generates a node-set valued expression.
func (g *Gen) NodeSet(depth int) *E {
	r := g.R
	if depth <= 0 {
		return g.Path(0)
	}
	switch r.Weighted([]int{14, 3, 2, 1}) {
	case 0:
		return g.Path(depth)
	case 1:
		return &E{Op: "bin", S: "|", Kids: []*E{g.NodeSet(depth - 1), g.NodeSet(depth - 1)}}
	case 2:
		return g.primaryNS(depth - 1)
	default:
		return &E{Op: "fn", S: "reverse", Kids: []*E{g.NodeSet(depth - 1)}}
	}
}

// Pred generates a predicate expression.
func (g *Gen) Pred(depth int) *E {
	r := g.R
	switch r.Weighted([]int{5, 3, 2, 2, 1, 1}) {
	case 0:
		return g.Bool(depth)
	case 1:
		return &E{Op: "num", F: float64(r.Range(0, 4))}
	case 2:
		ops := []string{"=", "<", ">", "<=", ">=", "!="}
		var rhs *E
		switch r.Intn(3) {
		case 0:
			rhs = &E{Op: "num", F: float64(r.Range(0, 4))}
		case 1:
			rhs = &E{Op: "fn", S: "last"}
		default:
			rhs = &E{Op: "bin", S: "-", Kids: []*E{{Op: "fn", S: "last"}, {Op: "num", F: float64(r.Range(0, 2))}}}
		}
		return &E{Op: "bin", S: r.Pick(ops), Kids: []*E{{Op: "fn", S: "position"}, rhs}}
	case 3:
		if r.Chance(1, 2) {
			return &E{Op: "fn", S: "last"}
		}
		return &E{Op: "bin", S: "-", Kids: []*E{{Op: "fn", S: "last"}, {Op: "num", F: float64(r.Range(0, 2))}}}
	case 4:
		return g.NodeSet(depth)
	default:
		return g.Any(depth)
	}
}

func (g *Gen) lit() *E {
	r := g.R
	if r.Chance(1, 40) {
		return &E{Op: "var", S: "v"} // a variable reference: accepted by the parser, no binding exists
	}
	if r.Chance(1, 2) {
		return &E{Op: "num", F: []float64{0, 1, 2, 3, 21, 3.5, 0.5, 10, 100}[r.Intn(9)], Abbr: r.Chance(1, 3)}
	}
	return &E{Op: "str", S: r.Pick(Values)}
}

// Any generates an expression of any type.
func (g *Gen) Any(depth int) *E {
	switch g.R.Intn(4) {
	case 0:
		return g.NodeSet(depth)
	case 1:
		return g.Num(depth)
	case 2:
		return g.Str(depth)
	default:
		return g.Bool(depth)
	}
}

func (g *Gen) ill(depth int, want func(int) *E) *E {
	if g.R.Intn(100) < g.wIllType {
		return g.Any(depth)
	}
	return want(depth)
}

// Bool generates a boolean valued expression.
func (g *Gen) Bool(depth int) *E {
	r := g.R
	if depth <= 0 {
		switch r.Intn(3) {
		case 0:
			return &E{Op: "fn", S: r.Pick([]string{"true", "false"})}
		default:
			return &E{Op: "bin", S: r.Pick([]string{"=", "!=", "<", ">"}), Kids: []*E{g.Path(0), g.lit()}}
		}
	}
	d := depth - 1
	switch r.Weighted([]int{8, 3, 2, 3, 1, 1, g.wRegex}) {
	case 0:
		ops := []string{"=", "=", "!=", "<", ">", "<=", ">="}
		var l, rr *E
		switch r.Weighted([]int{5, 2, 2, 2, 1, 2}) {
		case 5:
			// the simplest operands there are: the context node, its parent, the root
			l, rr = g.simplePath(), g.lit()
			if r.Chance(1, 3) {
				rr = g.simplePath()
			}
		case 0:
			l, rr = g.NodeSet(d), g.lit()
		case 1:
			l, rr = g.lit(), g.NodeSet(d)
		case 2:
			l, rr = g.NodeSet(d), g.NodeSet(d)
		case 3:
			l, rr = g.Num(d), g.Num(d)
		default:
			l, rr = g.Any(d), g.Any(d)
		}
		return &E{Op: "bin", S: r.Pick(ops), Kids: []*E{l, rr}}
	case 1:
		return &E{Op: "bin", S: r.Pick([]string{"and", "or"}), Kids: []*E{g.ill(d, g.Bool), g.ill(d, g.Bool)}}
	case 2:
		return &E{Op: "fn", S: "not", Kids: []*E{g.ill(d, g.Bool)}}
	case 3:
		fn := r.Pick([]string{"contains", "starts-with", "ends-with"})
		return &E{Op: "fn", S: fn, Kids: []*E{g.strArg(d), g.mapArg(d)}}
	case 4:
		return &E{Op: "fn", S: "boolean", Kids: []*E{g.Any(d)}}
	case 5:
		return &E{Op: "fn", S: r.Pick([]string{"true", "false"})}
	default:
		if g.NoRegex {
			return &E{Op: "fn", S: "true"}
		}
		return &E{Op: "fn", S: "matches", Kids: []*E{g.strArg(d), g.pattern(d)}}
	}
}

func (g *Gen) strLit(int) *E { return &E{Op: "str", S: g.R.Pick(Values)} }

// mapArg: an argument that is usually written as a literal but need not be.
func (g *Gen) mapArg(depth int) *E {
	r := g.R
	switch r.Weighted([]int{5, 2, 1, 1, 1}) {
	case 0:
		return g.strLit(0)
	case 1:
		return g.Path(0)
	case 2:
		return &E{Op: "path", Kids: []*E{{Op: "step", S: r.Pick([]string{"self", "parent"}), T: "node()", Abbr: true}}}
	case 3:
		return &E{Op: "path", Kids: []*E{{Op: "step", S: r.Pick([]string{"ancestor", "ancestor-or-self"}), T: g.nodeTest("child")}}}
	default:
		return g.strArg(depth)
	}
}

// simplePath: ".", "..", "/", "@name" or "*".
func (g *Gen) simplePath() *E {
	r := g.R
	switch r.Intn(5) {
	case 0:
		return &E{Op: "path", Kids: []*E{{Op: "step", S: "self", T: "node()", Abbr: true}}}
	case 1:
		return &E{Op: "path", Kids: []*E{{Op: "step", S: "parent", T: "node()", Abbr: true}}}
	case 2:
		return &E{Op: "path", S: "/"}
	case 3:
		return &E{Op: "path", Kids: []*E{{Op: "step", S: "attribute", T: g.attrName(), Abbr: true}}}
	default:
		return &E{Op: "path", Kids: []*E{{Op: "step", S: "child", T: "*", Abbr: true}}}
	}
}

// strArg: a node-set or a string, as most string functions accept either.
func (g *Gen) strArg(depth int) *E {
	if g.R.Chance(1, 2) {
		return g.NodeSet(depth)
	}
	return g.ill(depth, g.Str)
}

func (g *Gen) pattern(depth int) *E {
	r := g.R
	if r.Chance(1, 5) && depth > 0 {
		// a pattern only known at run time
		return &E{Op: "fn", S: "concat", Kids: []*E{{Op: "str", S: r.Pick(g.Patterns[:8])}, {Op: "str", S: r.Pick([]string{"", "+", "b"})}}}
	}
	if r.Chance(1, 12) {
		return g.Path(0) // pattern read from the document
	}
	return &E{Op: "str", S: r.Pick(g.Patterns)}
}

// Num generates a number valued expression.
func (g *Gen) Num(depth int) *E {
	r := g.R
	if depth <= 0 {
		return &E{Op: "num", F: float64(r.Range(0, 5))}
	}
	d := depth - 1
	switch r.Weighted([]int{3, 4, 2, 3, 2, 1, 1, 1, 1}) {
	case 0:
		return &E{Op: "num", F: []float64{0, 1, 2, 3, 21, 3.5, 0.5, 10}[r.Intn(8)]}
	case 1:
		return &E{Op: "fn", S: "count", Kids: []*E{g.ill(d, g.NodeSet)}}
	case 2:
		return &E{Op: "fn", S: "sum", Kids: []*E{g.ill(d, g.NodeSet)}}
	case 3:
		return &E{Op: "bin", S: r.Pick([]string{"+", "-", "*", "div", "mod"}), Kids: []*E{g.numArg(d), g.numArg(d)}}
	case 4:
		return &E{Op: "fn", S: "number", Kids: []*E{g.Any(d)}}
	case 5:
		return &E{Op: "fn", S: r.Pick([]string{"floor", "ceiling", "round"}), Kids: []*E{g.numArg(d)}}
	case 6:
		return &E{Op: "fn", S: "string-length", Kids: []*E{g.strArg(d)}}
	case 7:
		return &E{Op: "neg", Kids: []*E{g.numArg(d)}}
	default:
		return &E{Op: "fn", S: r.Pick([]string{"position", "last"})}
	}
}

func (g *Gen) numArg(depth int) *E {
	if g.R.Chance(1, 3) {
		return g.NodeSet(depth)
	}
	return g.ill(depth, g.Num)
}

// Str generates a string valued expression.
func (g *Gen) Str(depth int) *E {
	r := g.R
	if depth <= 0 {
		return g.strLit(0)
	}
	d := depth - 1
	switch r.Weighted([]int{3, 3, 4, 3, 3, 2, 2, 2, 2, 3, g.wRegex}) {
	case 0:
		return g.strLit(0)
	case 1:
		return &E{Op: "fn", S: "string", Kids: []*E{g.Any(d)}}
	case 2:
		n := r.Range(2, 4)
		if r.Chance(1, 6) {
			n = r.Range(5, 9) // size stratum: many arguments
		}
		c := &E{Op: "fn", S: "concat"}
		for i := 0; i < n; i++ {
			c.Kids = append(c.Kids, g.strArg(d))
		}
		return c
	case 3:
		fn := r.Pick([]string{"name", "local-name", "namespace-uri"})
		if r.Chance(1, 3) {
			return &E{Op: "fn", S: fn}
		}
		return &E{Op: "fn", S: fn, Kids: []*E{g.ill(d, g.NodeSet)}}
	case 4:
		if r.Chance(1, 4) {
			return &E{Op: "fn", S: "normalize-space"}
		}
		return &E{Op: "fn", S: "normalize-space", Kids: []*E{g.strArg(d)}}
	case 5:
		s := &E{Op: "fn", S: "substring", Kids: []*E{g.strArg(d), g.ill(d, g.Num)}}
		if r.Chance(1, 2) {
			s.Kids = append(s.Kids, g.ill(d, g.Num))
		}
		return s
	case 6:
		return &E{Op: "fn", S: r.Pick([]string{"substring-before", "substring-after"}), Kids: []*E{g.strArg(d), g.strArg(d)}}
	case 7:
		return &E{Op: "fn", S: "translate", Kids: []*E{g.strArg(d), g.mapArg(d), g.mapArg(d)}}
	case 8:
		return &E{Op: "fn", S: "lower-case", Kids: []*E{g.strArg(d)}}
	case 9:
		return &E{Op: "fn", S: "string-join", Kids: []*E{g.ill(d, g.NodeSet), g.strArg(d)}}
	default:
		if g.NoRegex {
			return g.strLit(0)
		}
		return &E{Op: "fn", S: "replace", Kids: []*E{g.strArg(d), g.pattern(d), {Op: "str", S: r.Pick(Repls)}}}
	}
}

// FocusFuncs are the functions a "focus run" builds every expression around.
var FocusFuncs = []string{"translate", "translate", "translate", "replace", "matches", "concat", "substring", "substring-before", "contains", "starts-with",
	"string-join", "count", "sum", "name", "normalize-space", "string-length", "lower-case", "number", "boolean", "not", "reverse"}

// ctxArg: an argument whose value depends on the context node (an attribute of
// it most of the time), so that evaluating one expression from several context
// nodes feeds the function different values.
func (g *Gen) ctxArg() *E {
	r := g.R
	switch r.Weighted([]int{6, 2, 1, 1}) {
	case 0:
		return &E{Op: "path", Kids: []*E{{Op: "step", S: "attribute", T: g.attrName(), Abbr: true}}}
	case 1:
		return &E{Op: "path", Kids: []*E{{Op: "step", S: r.Pick([]string{"self", "parent"}), T: "node()", Abbr: true}}}
	case 2:
		return &E{Op: "path", Kids: []*E{{Op: "step", S: "child", T: g.flatTest(), Abbr: true}}}
	default:
		return g.strLit(0)
	}
}

// Focus builds a call of fn whose arguments are context dependent.
func (g *Gen) Focus(fn string) *E {
	r := g.R
	a := func() *E { return g.ctxArg() }
	switch fn {
	case "translate":
		return &E{Op: "fn", S: fn, Kids: []*E{a(), a(), a()}}
	case "replace":
		return &E{Op: "fn", S: fn, Kids: []*E{a(), g.pattern(1), {Op: "str", S: r.Pick(Repls)}}}
	case "matches":
		return &E{Op: "fn", S: fn, Kids: []*E{a(), g.pattern(1)}}
	case "concat":
		c := &E{Op: "fn", S: fn}
		for n := r.Range(2, 7); n > 0; n-- {
			c.Kids = append(c.Kids, a())
		}
		return c
	case "substring":
		return &E{Op: "fn", S: fn, Kids: []*E{a(), {Op: "num", F: float64(r.Range(0, 3))}, {Op: "num", F: float64(r.Range(0, 3))}}}
	case "substring-before", "contains", "starts-with":
		return &E{Op: "fn", S: fn, Kids: []*E{a(), a()}}
	case "string-join":
		return &E{Op: "fn", S: fn, Kids: []*E{g.Path(1), a()}}
	case "count", "sum", "reverse", "boolean", "not", "number":
		return &E{Op: "fn", S: fn, Kids: []*E{g.NodeSet(1)}}
	case "name":
		return &E{Op: "fn", S: r.Pick([]string{"name", "local-name", "namespace-uri"}), Kids: []*E{g.Path(0)}}
	default: // normalize-space, string-length, lower-case
		return &E{Op: "fn", S: fn, Kids: []*E{a()}}
	}
}

// Top generates a top-level expression for the history / schedule
// simulations. Node-set comparisons and conversions are favoured, because
// those are the shapes whose evaluation drives iterator state.
func (g *Gen) Top() *E {
	if g.FocusFn != "" && g.R.Chance(3, 4) {
		e := g.Focus(g.FocusFn)
		if g.R.Chance(1, 3) {
			// as a predicate: evaluated once per candidate, i.e. from many context nodes in one call
			return &E{Op: "path", S: "//", Kids: []*E{{Op: "step", S: "child", T: "*", Abbr: true, Kids: []*E{
				{Op: "bin", S: "=", Kids: []*E{e, g.lit()}}}}}}
		}
		return e
	}
	d := g.MaxDepth
	if g.R.Chance(1, 5) {
		// short, productive paths (the flat fragment): child / attribute / self
		// steps with boolean and positional predicates over names the documents use
		if g.R.Chance(1, 3) {
			return &E{Op: "path", S: "//", Kids: g.flatInner(true).Kids}
		}
		return g.Flat()
	}
	switch g.R.Weighted([]int{8, 6, 3, 3}) {
	case 0:
		return g.NodeSet(d)
	case 1:
		return g.Bool(d)
	case 2:
		return g.Num(d)
	default:
		return g.Str(d)
	}
}

// ---------------------------------------------------------------------------
// The flat fragment of property C12: child / attribute / self steps from one
// context node with boolean predicates, positional predicates only as the
// first predicate of a child step; or a single predicate-free descendant step.

func (g *Gen) flatBoolPred() *E {
	r := g.R
	switch r.Weighted([]int{4, 4, 2, 2, 2, 2}) {
	case 0: // path existence
		return g.flatInner(false)
	case 1:
		return &E{Op: "bin", S: r.Pick([]string{"=", "!="}), Kids: []*E{g.flatInner(false), {Op: "str", S: r.Pick(Values)}}}
	case 2:
		return &E{Op: "bin", S: r.Pick([]string{"<", ">", "<=", ">="}), Kids: []*E{{Op: "fn", S: "count", Kids: []*E{g.flatInner(false)}}, {Op: "num", F: float64(r.Range(0, 3))}}}
	case 3:
		return &E{Op: "fn", S: "not", Kids: []*E{g.flatInner(false)}}
	case 4:
		return &E{Op: "fn", S: r.Pick([]string{"contains", "starts-with"}), Kids: []*E{g.flatInner(false), {Op: "str", S: r.Pick([]string{"a", "b", "1", ""})}}}
	default:
		return &E{Op: "bin", S: "=", Kids: []*E{{Op: "fn", S: "local-name"}, {Op: "str", S: r.Pick(ElemNames[:3])}}}
	}
}

func (g *Gen) flatPosPred() *E {
	r := g.R
	switch r.Intn(4) {
	case 0:
		return &E{Op: "num", F: float64(r.Range(1, 3))}
	case 1:
		return &E{Op: "fn", S: "last"}
	case 2:
		return &E{Op: "bin", S: r.Pick([]string{"=", "<", ">", "<=", ">=", "!="}), Kids: []*E{{Op: "fn", S: "position"}, {Op: "num", F: float64(r.Range(1, 3))}}}
	default:
		return &E{Op: "bin", S: "-", Kids: []*E{{Op: "fn", S: "last"}, {Op: "num", F: float64(r.Range(0, 1))}}}
	}
}

// flatTest favours tests that select several siblings.
func (g *Gen) flatTest() string {
	switch g.R.Weighted([]int{6, 5, 3, 2, 1}) {
	case 0:
		return g.name()
	case 1:
		return "*"
	case 2:
		return "node()"
	case 3:
		return "text()"
	default:
		return "comment()"
	}
}

// flatInner: predicate-free (or, with preds, predicate-carrying) child /
// attribute / self path relative to the context node.
func (g *Gen) flatInner(preds bool) *E {
	r := g.R
	p := &E{Op: "path"}
	n := r.Weighted([]int{0, 6, 4, 2})
	for i := 0; i < n; i++ {
		last := i == n-1
		var s *E
		switch k := r.Weighted([]int{8, 2, 2}); {
		case k == 1 && last:
			s = &E{Op: "step", S: "attribute", T: g.nodeTest("attribute"), Abbr: r.Chance(3, 4)}
		case k == 2:
			s = &E{Op: "step", S: "self", T: r.Pick([]string{"node()", "*", "a", "b"}), Abbr: false}
			if s.T == "node()" {
				s.Abbr = r.Chance(1, 2)
			}
		default:
			t := g.flatTest()
			if !last && (t == "text()" || t == "comment()") {
				t = "*"
			}
			s = &E{Op: "step", S: "child", T: t, Abbr: r.Chance(4, 5)}
		}
		s.Sep = "/"
		if preds && !(s.Abbr && s.S != "child" && s.S != "attribute") {
			if s.S == "child" && r.Chance(1, 4) {
				s.Kids = append(s.Kids, g.flatPosPred())
			}
			for k := r.Weighted([]int{6, 3, 1}); k > 0; k-- {
				s.Kids = append(s.Kids, g.flatBoolPred())
			}
			if g.StackPos && s.S == "child" && len(s.Kids) > 0 && r.Chance(1, 3) {
				s.Kids = append(s.Kids, g.flatPosPred()) // a positional predicate after boolean ones (outside the C12 fragment)
			}
		}
		p.Kids = append(p.Kids, s)
	}
	return p
}

// Flat generates a member of the C12 flat fragment.
func (g *Gen) Flat() *E {
	r := g.R
	if r.Chance(1, 4) {
		t := g.flatTest()
		switch r.Intn(6) {
		case 4:
			// //name written out in full
			return &E{Op: "path", S: "/", Kids: []*E{{Op: "step", S: "descendant-or-self", T: "node()"}, {Op: "step", S: "child", T: t, Sep: "/", Abbr: r.Chance(1, 2)}}}
		case 5:
			// .//name written out in full
			return &E{Op: "path", Kids: []*E{{Op: "step", S: "descendant-or-self", T: "node()"}, {Op: "step", S: "child", T: t, Sep: "/", Abbr: r.Chance(1, 2)}}}
		case 0:
			return &E{Op: "path", S: "//", Kids: []*E{{Op: "step", S: "child", T: t, Abbr: true}}}
		case 1:
			return &E{Op: "path", Kids: []*E{{Op: "step", S: "self", T: "node()", Abbr: true}, {Op: "step", S: "child", T: t, Abbr: true, Sep: "//"}}}
		case 2:
			return &E{Op: "path", Kids: []*E{{Op: "step", S: "descendant", T: t}}}
		default:
			return &E{Op: "path", Kids: []*E{{Op: "step", S: "descendant-or-self", T: t}}}
		}
	}
	return g.flatInner(true)
}

// ---------------------------------------------------------------------------
// minimisation

// ShrinkExpr enumerates structurally smaller variants of e (not necessarily
// well-formed for the engine; the caller discards those Compile rejects).
func ShrinkExpr(e *E) []*E {
	var out []*E
	// positions in pre-order; a candidate is built by cloning the whole tree
	// and editing the node at that position.
	n := e.Size()
	for pos := 0; pos < n; pos++ {
		node := nth(e, pos)
		// replace the node by one of its children (expression-valued kids only)
		for ki, k := range node.Kids {
			if node.Op == "step" || (node.Op == "group" && ki > 0) {
				continue
			}
			if node.Op == "path" {
				if k.Op == "step" && len(node.Kids) > 1 {
					continue // handled below by dropping steps
				}
				if k.Op == "step" {
					continue
				}
			}
			c := e.Clone()
			replaceNth(&c, pos, k.Clone())
			out = append(out, c)
		}
		// drop one child where the arity is flexible
		for ki := range node.Kids {
			ok := false
			switch node.Op {
			case "step":
				ok = true
			case "group":
				ok = ki > 0
			case "path", "seq":
				ok = len(node.Kids) > 1
			case "fn":
				ok = (node.S == "concat" && len(node.Kids) > 2) || (node.S == "substring" && ki == 2)
			}
			if !ok {
				continue
			}
			c := e.Clone()
			m := nth(c, pos)
			m.Kids = append(m.Kids[:ki:ki], m.Kids[ki+1:]...)
			out = append(out, c)
		}
		// simplify leaves
		switch node.Op {
		case "path":
			if node.S != "" {
				c := e.Clone()
				nth(c, pos).S = ""
				out = append(out, c)
			}
		case "step":
			if node.Sep == "//" {
				c := e.Clone()
				nth(c, pos).Sep = "/"
				out = append(out, c)
			}
			if node.S != "child" && node.S != "attribute" {
				c := e.Clone()
				m := nth(c, pos)
				m.S, m.Abbr = "child", true
				if m.T == "node()" {
					m.T = "*"
				}
				out = append(out, c)
			}
		case "num", "str":
		default:
			if pos > 0 {
				c := e.Clone()
				replaceNth(&c, pos, &E{Op: "num", F: 1})
				out = append(out, c)
				c = e.Clone()
				replaceNth(&c, pos, &E{Op: "str", S: "a"})
				out = append(out, c)
			}
		}
	}
	return out
}

func nth(e *E, pos int) *E {
	var found *E
	i := 0
	var walk func(x *E) bool
	walk = func(x *E) bool {
		if i == pos {
			found = x
			return true
		}
		i++
		for _, k := range x.Kids {
			if walk(k) {
				return true
			}
		}
		return false
	}
	walk(e)
	return found
}

func replaceNth(root **E, pos int, with *E) {
	if pos == 0 {
		// keep a step separator if the replaced node had one
		*root = with
		return
	}
	i := 0
	var walk func(x *E) bool
	walk = func(x *E) bool {
		for ki, k := range x.Kids {
			i++
			if i == pos {
				if x.Op == "path" || x.Op == "seq" || x.Op == "step" || (x.Op == "group" && ki > 0) {
					// structural children: only replace by same-kind nodes
					if (x.Op == "path" || x.Op == "seq") && with.Op != "step" && ki > 0 {
						return true
					}
				}
				x.Kids[ki] = with
				return true
			}
			if walk(k) {
				return true
			}
		}
		return false
	}
	walk(*root)
}
