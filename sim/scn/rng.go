// Package scn holds everything about a simulated scenario that does not need
// the package under test: the replay-file data model (documents, expressions,
// operation lists, schedules, faults), the seeded generators that produce
// scenarios, and the enumerators of smaller scenarios used for minimisation.
package scn

// Rng is a small, explicit PRNG (splitmix64 seeding an xorshift64*), so that a
// run is a pure function of (VERIF_SEED, property, run index) on every Go
// version and platform. Nothing else in the simulator draws randomness.
type Rng struct{ s uint64 }

func splitmix(x *uint64) uint64 {
	*x += 0x9e3779b97f4a7c15
	z := *x
	z = (z ^ (z >> 30)) * 0xbf58476d1ce4e5b9
	z = (z ^ (z >> 27)) * 0x94d049bb133111eb
	return z ^ (z >> 31)
}

// NewRng derives a stream from a seed and any number of stream selectors.
func NewRng(seed uint64, sel ...uint64) *Rng {
	x := seed
	s := splitmix(&x)
	for _, v := range sel {
		x ^= v * 0xd6e8feb86659fd93
		s ^= splitmix(&x)
	}
	if s == 0 {
		s = 0x1234567
	}
	return &Rng{s: s}
}

func (r *Rng) U64() uint64 {
	r.s ^= r.s >> 12
	r.s ^= r.s << 25
	r.s ^= r.s >> 27
	return r.s * 0x2545f4914f6cdd1d
}

// Intn returns a value in [0,n). n<=0 yields 0.
func (r *Rng) Intn(n int) int {
	if n <= 1 {
		return 0
	}
	return int(r.U64() % uint64(n))
}

// Range returns a value in [lo,hi].
func (r *Rng) Range(lo, hi int) int {
	if hi <= lo {
		return lo
	}
	return lo + r.Intn(hi-lo+1)
}

// Chance is true with probability num/den.
func (r *Rng) Chance(num, den int) bool { return r.Intn(den) < num }

func (r *Rng) Pick(ss []string) string { return ss[r.Intn(len(ss))] }

// Weighted picks an index with probability proportional to w[i].
func (r *Rng) Weighted(w []int) int {
	t := 0
	for _, x := range w {
		t += x
	}
	if t <= 0 {
		return 0
	}
	k := r.Intn(t)
	for i, x := range w {
		if k < x {
			return i
		}
		k -= x
	}
	return len(w) - 1
}

// HashString is FNV-1a, used for property-name stream selectors and for
// counting distinct scenarios / schedules.
func HashString(s string) uint64 {
	h := uint64(14695981039346656037)
	for i := 0; i < len(s); i++ {
		h ^= uint64(s[i])
		h *= 1099511628211
	}
	return h
}
