// xpinstr makes an instrumented scratch copy of the module under test:
//
//   - copies every non-test .go file (and go.mod) of -src to -dst;
//   - copies the sync shim (-shim) to <dst>/verifsync;
//   - rewrites `import "sync"` to the shim, keeping the package name `sync`;
//   - inserts verifsync.Enter("<Recv.Func>") at the top of every function body.
//
// It reports `go` statements in the package: goroutines started by the package
// itself would run outside the simulator's scheduler.
//
// Exit status: 0 ok; 2 on any trouble (the caller treats that as infrastructure
// failure, never as a property violation).
package main

import (
	"bytes"
	"flag"
	"fmt"
	"go/ast"
	"go/parser"
	"go/token"
	"os"
	"path/filepath"
	"sort"
	"strconv"
	"strings"
)

var funcNames []string

func die(format string, a ...interface{}) {
	fmt.Fprintf(os.Stderr, "xpinstr: "+format+"\n", a...)
	os.Exit(2)
}

func main() {
	src := flag.String("src", "/repo", "module under test")
	dst := flag.String("dst", "", "scratch destination directory (created)")
	shim := flag.String("shim", "", "directory holding the verifsync shim sources")
	noEnter := flag.Bool("no-enter", false, "do not insert function-entry yields")
	flag.Parse()
	if *dst == "" || *shim == "" {
		die("need -dst and -shim")
	}
	modPath := readModulePath(filepath.Join(*src, "go.mod"))
	shimPath := modPath + "/verifsync"

	var files []string
	err := filepath.Walk(*src, func(p string, info os.FileInfo, err error) error {
		if err != nil {
			return err
		}
		base := filepath.Base(p)
		if info.IsDir() {
			if p != *src && (strings.HasPrefix(base, ".") || strings.HasPrefix(base, "_") || base == "testdata" || base == "verifsync" || base == "vendor") {
				return filepath.SkipDir
			}
			return nil
		}
		if strings.HasSuffix(base, ".go") && !strings.HasSuffix(base, "_test.go") {
			files = append(files, p)
		}
		return nil
	})
	if err != nil {
		die("walk %s: %v", *src, err)
	}
	sort.Strings(files)
	if len(files) == 0 {
		die("no go files under %s", *src)
	}
	if err := os.MkdirAll(*dst, 0o755); err != nil {
		die("%v", err)
	}
	copyFile(filepath.Join(*src, "go.mod"), filepath.Join(*dst, "go.mod"))

	nfunc, nsync, ngo := 0, 0, 0
	defer func() {
		// the names of all instrumented functions, for the reach report
		sort.Strings(funcNames)
		os.WriteFile(filepath.Join(*dst, "verif_funcs.txt"), []byte(strings.Join(funcNames, "\n")+"\n"), 0o644)
	}()
	for _, f := range files {
		rel, _ := filepath.Rel(*src, f)
		out := filepath.Join(*dst, rel)
		if err := os.MkdirAll(filepath.Dir(out), 0o755); err != nil {
			die("%v", err)
		}
		a, b, c := instrument(f, out, shimPath, !*noEnter)
		nfunc += a
		nsync += b
		ngo += c
	}
	// the shim
	sd := filepath.Join(*dst, "verifsync")
	if err := os.MkdirAll(sd, 0o755); err != nil {
		die("%v", err)
	}
	ents, err := os.ReadDir(*shim)
	if err != nil {
		die("%v", err)
	}
	for _, e := range ents {
		if strings.HasSuffix(e.Name(), ".go") && !strings.HasSuffix(e.Name(), "_test.go") {
			copyFile(filepath.Join(*shim, e.Name()), filepath.Join(sd, e.Name()))
		}
	}
	// the sync/atomic stand-in
	if aents, err := os.ReadDir(filepath.Join(*shim, "atomic")); err == nil {
		os.MkdirAll(filepath.Join(sd, "atomic"), 0o755)
		for _, e := range aents {
			if strings.HasSuffix(e.Name(), ".go") {
				copyFile(filepath.Join(*shim, "atomic", e.Name()), filepath.Join(sd, "atomic", e.Name()))
			}
		}
	}
	fmt.Printf("xpinstr: module=%s files=%d funcs=%d sync_imports=%d go_statements=%d\n", modPath, len(files), nfunc, nsync, ngo)
	if ngo > 0 {
		die("the package starts goroutines itself (%d go statements); the simulator cannot schedule them", ngo)
	}
}

func readModulePath(gomod string) string {
	b, err := os.ReadFile(gomod)
	if err != nil {
		die("%v", err)
	}
	for _, l := range strings.Split(string(b), "\n") {
		l = strings.TrimSpace(l)
		if strings.HasPrefix(l, "module ") {
			return strings.Trim(strings.TrimSpace(strings.TrimPrefix(l, "module ")), "\"")
		}
	}
	die("no module line in %s", gomod)
	return ""
}

func copyFile(from, to string) {
	b, err := os.ReadFile(from)
	if err != nil {
		die("%v", err)
	}
	if err := os.WriteFile(to, b, 0o644); err != nil {
		die("%v", err)
	}
}

// instrument rewrites one file textually, at byte offsets taken from the
// parsed AST, so that every original line keeps its line number (race reports
// and panics then point at /repo's own lines).
func instrument(in, out, shimPath string, enter bool) (nfunc, nsync, ngo int) {
	src, err := os.ReadFile(in)
	if err != nil {
		die("%v", err)
	}
	fset := token.NewFileSet()
	f, err := parser.ParseFile(fset, in, src, parser.ParseComments)
	if err != nil {
		die("parse %s: %v", in, err)
	}
	type edit struct {
		off, del int
		text     string
	}
	var edits []edit
	off := func(p token.Pos) int { return fset.Position(p).Offset }
	for _, imp := range f.Imports {
		p, _ := strconv.Unquote(imp.Path.Value)
		if p == "sync" {
			text := strconv.Quote(shimPath)
			if imp.Name == nil {
				text = "sync " + text
			}
			edits = append(edits, edit{off(imp.Path.Pos()), len(imp.Path.Value), text})
			nsync++
		}
		if p == "sync/atomic" {
			// package name is already "atomic"
			edits = append(edits, edit{off(imp.Path.Pos()), len(imp.Path.Value), strconv.Quote(shimPath + "/atomic")})
			nsync++
		}
	}
	ast.Inspect(f, func(n ast.Node) bool {
		if _, ok := n.(*ast.GoStmt); ok {
			ngo++
			fmt.Fprintf(os.Stderr, "xpinstr: go statement at %s\n", fset.Position(n.Pos()))
		}
		return true
	})
	// runtime.SetFinalizer -> the shim's SetFinalizer (finalizers are run by the
	// simulator, never on the runtime's finalizer goroutine)
	runtimeName := ""
	for _, imp := range f.Imports {
		if p, _ := strconv.Unquote(imp.Path.Value); p == "runtime" {
			runtimeName = "runtime"
			if imp.Name != nil {
				runtimeName = imp.Name.Name
			}
		}
	}
	nfin := 0
	if runtimeName != "" && runtimeName != "_" && runtimeName != "." {
		ast.Inspect(f, func(n ast.Node) bool {
			if c, ok := n.(*ast.CallExpr); ok {
				if sel, ok := c.Fun.(*ast.SelectorExpr); ok && sel.Sel.Name == "SetFinalizer" {
					if id, ok := sel.X.(*ast.Ident); ok && id.Name == runtimeName {
						edits = append(edits, edit{off(sel.Pos()), off(sel.End()) - off(sel.Pos()), "verifsyncfin__.SetFinalizer"})
						nfin++
					}
				}
			}
			return true
		})
		if nfin > 0 {
			// keep the runtime import used; import the shim under a name of its own
			edits = append(edits, edit{off(f.Name.End()), 0, "; import verifsyncfin__ " + strconv.Quote(shimPath)})
			edits = append(edits, edit{len(src), 0, "\nvar _ = " + runtimeName + ".NumCPU\n"})
			fmt.Fprintf(os.Stderr, "xpinstr: %d runtime.SetFinalizer call(s) in %s redirected to the simulator\n", nfin, filepath.Base(in))
		}
	}
	if enter {
		for _, d := range f.Decls {
			fd, ok := d.(*ast.FuncDecl)
			if !ok || fd.Body == nil {
				continue
			}
			name := fd.Name.Name
			if fd.Recv != nil && len(fd.Recv.List) == 1 {
				name = recvName(fd.Recv.List[0].Type) + "." + name
			}
			edits = append(edits, edit{off(fd.Body.Lbrace) + 1, 0, " verifsync__.Enter(" + strconv.Quote(name) + ");"})
			funcNames = append(funcNames, name)
			nfunc++
		}
		if nfunc > 0 {
			// on the line of the package clause: no line shifts
			edits = append(edits, edit{off(f.Name.End()), 0, "; import verifsync__ " + strconv.Quote(shimPath)})
		}
	}
	sort.Slice(edits, func(i, j int) bool { return edits[i].off < edits[j].off })
	var buf bytes.Buffer
	pos := 0
	for _, e := range edits {
		buf.Write(src[pos:e.off])
		buf.WriteString(e.text)
		pos = e.off + e.del
	}
	buf.Write(src[pos:])
	if err := os.WriteFile(out, buf.Bytes(), 0o644); err != nil {
		die("%v", err)
	}
	return
}

func recvName(e ast.Expr) string {
	switch t := e.(type) {
	case *ast.StarExpr:
		return recvName(t.X)
	case *ast.Ident:
		return t.Name
	case *ast.IndexExpr:
		return recvName(t.X)
	case *ast.IndexListExpr:
		return recvName(t.X)
	}
	return "?"
}
