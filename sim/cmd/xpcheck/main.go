// xpcheck is the batch driver behind /verif/check. For one property and tier
// it instruments a scratch copy of /repo's current working tree, builds the
// simulation worker against it (plain and, where the race oracle is used,
// -race), fans seeded runs out over worker processes, confirms and files every
// violation as a replay file, matches violations against the committed
// known-findings list and writes /verif/evidence/<id>.json.
//
// Exit status: 0 the property held on everything explored; 1 with a line
// "VIOLATION property=<id> replay=<path>"; 2 infrastructure trouble (never a
// verdict).
package main

import (
	"bytes"
	"encoding/binary"
	"encoding/json"
	"fmt"
	"os"
	"os/exec"
	"path/filepath"
	"regexp"
	"runtime"
	"sort"
	"strconv"
	"strings"
	"sync"
	"time"
)

var (
	root    string // /verif
	repo    = "/repo"
	scratch string
	t0      = time.Now()
)

func die(format string, a ...interface{}) {
	fmt.Fprintf(os.Stderr, "xpcheck: infrastructure trouble: "+format+"\n", a...)
	cleanup()
	os.Exit(2)
}

func cleanup() {
	if scratch != "" && os.Getenv("VERIF_KEEP_SCRATCH") == "" {
		os.RemoveAll(scratch)
	}
}

func goEnv() []string {
	env := os.Environ()
	env = append(env, "GOFLAGS=-mod=mod", "GOPROXY=off", "GOSUMDB=off", "GOTOOLCHAIN=local")
	return env
}

type phase struct {
	Base    uint64        // first run index (phases explore disjoint run indices)
	Part    string        // "H", "G" or ""
	Race    bool          // use the -race worker and the race oracle
	Runs    uint64        // run indices [0,Runs)
	MaxWall time.Duration // stop issuing batches after this long
}

func plan(prop, tier string) []phase {
	ph := plan0(prop, tier)
	for i := range ph {
		ph[i].Base = uint64(i) << 32
	}
	return ph
}

func plan0(prop, tier string) []phase {
	q := tier == "quick"
	switch prop {
	case "C04":
		if q {
			return []phase{{Part: "", Race: false, Runs: 20000, MaxWall: 100 * time.Second}}
		}
		return []phase{{Part: "", Race: false, Runs: 1500000, MaxWall: 25 * time.Minute}}
	case "C12":
		if q {
			return []phase{{Part: "", Race: false, Runs: 60000, MaxWall: 100 * time.Second}}
		}
		return []phase{{Part: "", Race: false, Runs: 12000000, MaxWall: 25 * time.Minute}}
	case "C05":
		if q {
			return []phase{{Part: "", Race: false, Runs: 8000, MaxWall: 70 * time.Second}, {Part: "", Race: true, Runs: 3000, MaxWall: 110 * time.Second}}
		}
		return []phase{{Part: "", Race: false, Runs: 600000, MaxWall: 12 * time.Minute}, {Part: "", Race: true, Runs: 250000, MaxWall: 18 * time.Minute}}
	case "C16":
		if q {
			return []phase{{Part: "H", Race: false, Runs: 60000, MaxWall: 40 * time.Second}, {Part: "G", Race: false, Runs: 30000, MaxWall: 50 * time.Second}, {Part: "G", Race: true, Runs: 8000, MaxWall: 80 * time.Second}}
		}
		return []phase{{Part: "H", Race: false, Runs: 8000000, MaxWall: 8 * time.Minute}, {Part: "G", Race: false, Runs: 5000000, MaxWall: 10 * time.Minute}, {Part: "G", Race: true, Runs: 1500000, MaxWall: 15 * time.Minute}}
	}
	return nil
}

func main() {
	exe, _ := os.Executable()
	root = os.Getenv("VERIF_ROOT")
	if root == "" {
		root = filepath.Dir(filepath.Dir(exe))
	}
	if r := os.Getenv("VERIF_REPO"); r != "" {
		repo = r
	}
	if len(os.Args) < 2 {
		fmt.Fprintln(os.Stderr, "usage: xpcheck <C04|C05|C12|C16> <quick|thorough> | replay <file> | selftest-determinism [n]")
		os.Exit(2)
	}
	switch os.Args[1] {
	case "replay":
		if len(os.Args) < 3 {
			die("replay needs a file")
		}
		os.Exit(cmdReplay(os.Args[2]))
	case "selftest-determinism":
		n := 40
		if len(os.Args) > 2 {
			n, _ = strconv.Atoi(os.Args[2])
		}
		os.Exit(cmdDeterminism(n))
	}
	prop := os.Args[1]
	tier := os.Getenv("VERIF_TIER")
	if len(os.Args) > 2 {
		tier = os.Args[2]
	}
	if tier != "quick" && tier != "thorough" {
		tier = "quick"
	}
	ph := plan(prop, tier)
	if ph == nil {
		die("no check for property %q", prop)
	}
	os.Exit(cmdCheck(prop, tier, ph))
}

// evidenceDir / replayDir can be redirected by the mutation tooling
// (tools/try_seeded.sh) so that trial runs against scratch trees do not
// overwrite the evidence of the registered checks.
func evidenceDir() string {
	if d := os.Getenv("VERIF_EVIDENCE_DIR"); d != "" {
		return d
	}
	return filepath.Join(root, "evidence")
}

func replayDir() string {
	if d := os.Getenv("VERIF_REPLAY_DIR"); d != "" {
		return d
	}
	return filepath.Join(root, "replays")
}

func seedEnv() uint64 {
	s := os.Getenv("VERIF_SEED")
	if s == "" {
		return 1
	}
	v, err := strconv.ParseInt(s, 10, 64)
	if err != nil {
		return 1
	}
	return uint64(v)
}

// ---------------------------------------------------------------------------
// build

type builds struct {
	plain, race string
	instrInfo   string
	buildS      float64
}

func prepare(tag string, needRace bool) *builds {
	scratch = os.Getenv("VERIF_SCRATCH")
	if scratch == "" {
		scratch = fmt.Sprintf("/var/tmp/xpverif.%s.%d", tag, os.Getpid())
	}
	os.RemoveAll(scratch)
	if err := os.MkdirAll(filepath.Join(scratch, "out"), 0o755); err != nil {
		die("%v", err)
	}
	b := &builds{}
	st := time.Now()
	instr := filepath.Join(root, "bin", "xpinstr")
	if _, err := os.Stat(instr); err != nil {
		die("%s missing: run MANIFEST.setup_cmd first", instr)
	}
	out, err := exec.Command(instr, "-src", repo, "-dst", filepath.Join(scratch, "xpath"), "-shim", filepath.Join(root, "sim", "shim")).CombinedOutput()
	if err != nil {
		die("instrumenting %s failed: %v\n%s", repo, err, out)
	}
	b.instrInfo = strings.TrimSpace(string(out))
	mod := fmt.Sprintf("module verifsimw\n\ngo 1.23\n\nrequire (\n\tgithub.com/antchfx/xpath v0.0.0\n\tverifsim v0.0.0\n)\n\nreplace verifsim => %s\n\nreplace github.com/antchfx/xpath => %s\n",
		filepath.Join(root, "sim"), filepath.Join(scratch, "xpath"))
	modfile := filepath.Join(scratch, "worker.mod")
	if err := os.WriteFile(modfile, []byte(mod), 0o644); err != nil {
		die("%v", err)
	}
	os.WriteFile(filepath.Join(scratch, "worker.sum"), nil, 0o644)
	build := func(race bool) string {
		bin := filepath.Join(scratch, "xpsim")
		args := []string{"build", "-modfile=" + modfile, "-tags", "verif", "-trimpath"}
		if race {
			bin += "-race"
			args = append(args, "-race")
		}
		args = append(args, "-o", bin, "./cmd/xpsim")
		cmd := exec.Command("go", args...)
		cmd.Dir = filepath.Join(root, "sim", "worker")
		cmd.Env = goEnv()
		if out, err := cmd.CombinedOutput(); err != nil {
			die("building the worker against the current %s tree failed (race=%v): %v\n%s", repo, race, err, out)
		}
		return bin
	}
	var wg sync.WaitGroup
	wg.Add(1)
	go func() { defer wg.Done(); b.plain = build(false) }()
	if needRace {
		wg.Add(1)
		go func() { defer wg.Done(); b.race = build(true) }()
	}
	wg.Wait()
	b.buildS = time.Since(st).Seconds()
	return b
}

// ---------------------------------------------------------------------------
// worker reports (mirrors cmd/xpsim)

type violation struct {
	Prop   string `json:"prop"`
	Kind   string `json:"kind"`
	Class  string `json:"class"`
	Detail string `json:"detail"`
	Step   int    `json:"step"`
}

type found struct {
	Viol        violation       `json:"violation"`
	All         []violation     `json:"all_violations"`
	Original    json.RawMessage `json:"original"`
	Minimised   json.RawMessage `json:"minimised"`
	ShrinkExecs int             `json:"shrink_execs"`
	Confirmed   bool            `json:"confirmed_in_process"`
	Trace       []string        `json:"trace,omitempty"`
}

type stats struct {
	Runs         int            `json:"runs"`
	Steps        int64          `json:"steps"`
	NavCalls     int64          `json:"nav_calls"`
	Ops          int64          `json:"ops"`
	OpsCompared  int64          `json:"ops_compared"`
	SoloDiverged int64          `json:"solo_diverged"`
	Yields       map[string]int `json:"yields,omitempty"`
	Faults       map[string]int `json:"faults"`
	Probes       map[string]int `json:"probes"`
	Points       int64          `json:"sched_points,omitempty"`
	Switches     int64          `json:"switches,omitempty"`
	Preempts     int64          `json:"preemptions,omitempty"`
	Funcs        map[string]int `json:"functions_entered,omitempty"`
}

func (s *stats) add(o *stats) {
	s.Runs += o.Runs
	s.Steps += o.Steps
	s.NavCalls += o.NavCalls
	s.Ops += o.Ops
	s.OpsCompared += o.OpsCompared
	s.SoloDiverged += o.SoloDiverged
	s.Points += o.Points
	s.Switches += o.Switches
	s.Preempts += o.Preempts
	for k, v := range o.Yields {
		s.Yields[k] += v
	}
	for k, v := range o.Faults {
		s.Faults[k] += v
	}
	for k, v := range o.Probes {
		s.Probes[k] += v
	}
	for k, v := range o.Funcs {
		s.Funcs[k] += v
	}
}

func newStats() *stats {
	return &stats{Yields: map[string]int{}, Faults: map[string]int{}, Probes: map[string]int{}, Funcs: map[string]int{}}
}

type report struct {
	Prop      string            `json:"prop"`
	Part      string            `json:"part"`
	Race      bool              `json:"race"`
	Seed      uint64            `json:"seed"`
	From      uint64            `json:"from"`
	To        uint64            `json:"to"`
	Next      uint64            `json:"next"`
	Stats     *stats            `json:"stats"`
	Nontriv   int               `json:"nontrivial_runs"`
	Found     []found           `json:"found,omitempty"`
	Samples   []json.RawMessage `json:"samples,omitempty"`
	Harness   string            `json:"harness_race,omitempty"`
	WallS     float64           `json:"wall_s"`
	LogHashes []string          `json:"log_hashes,omitempty"`
}

type phaseResult struct {
	phase    phase
	stats    *stats
	nontriv  map[uint64]struct{}
	found    []foundAt
	samples  []json.RawMessage
	executed uint64
	wall     float64
	capped   bool
}

type foundAt struct {
	found
	race bool
	run  uint64
	// the range of runs the worker process was given when it found the
	// violation (absolute run numbers): re-running it in a fresh process repeats
	// that process's whole history (and goes on to the end of the range, since a
	// violation that depends on the garbage collector may show a few runs later)
	from, to uint64
	part     string
}

func gorace(prefix string) string {
	return "halt_on_error=0 exitcode=0 atexit_sleep_ms=0 history_size=4 suppress_equal_stacks=0 suppress_equal_addresses=0 log_path=" + prefix
}

// runWorker starts one worker process for [from,to) and returns its report.
func runWorker(b *builds, prop string, ph phase, seed, from, to uint64, id int, extra ...string) (*report, error) {
	bin := b.plain
	if ph.Race {
		bin = b.race
	}
	out := filepath.Join(scratch, "out", fmt.Sprintf("w%d.json", id))
	args := []string{"-prop", prop, "-part", ph.Part, "-seed", strconv.FormatUint(seed, 10), "-from", strconv.FormatUint(from, 10), "-to", strconv.FormatUint(to, 10), "-out", out}
	if st := os.Getenv("XPCHECK_SHRINK_TIME"); st != "" {
		args = append(args, "-shrink-time", st)
	}
	env := os.Environ()
	for _, x := range extra {
		if strings.HasPrefix(x, "ENV:") {
			env = append(env, strings.TrimPrefix(x, "ENV:"))
		} else {
			args = append(args, x)
		}
	}
	var cmd *exec.Cmd
	if ph.Race {
		prefix := filepath.Join(scratch, "out", fmt.Sprintf("race%d", id))
		args = append(args, "-racelog", prefix)
		env = append(env, "GORACE="+gorace(prefix))
		cmd = exec.Command(bin, args...)
	} else {
		// address-space cap: a run-away allocation must not take the sandbox down
		sh := "ulimit -v 8388608; exec \"$0\" \"$@\""
		cmd = exec.Command("sh", append([]string{"-c", sh, bin}, args...)...)
	}
	cmd.Env = env
	var stderr bytes.Buffer
	cmd.Stderr = &stderr
	cmd.Stdout = &stderr
	done := make(chan error, 1)
	if err := cmd.Start(); err != nil {
		return nil, err
	}
	go func() { done <- cmd.Wait() }()
	limit := 20 * time.Minute
	if os.Getenv("XPCHECK_TIER") == "quick" {
		limit = 6 * time.Minute // a quick batch takes seconds; a worker that spins without events is harness trouble
	}
	select {
	case err := <-done:
		if err != nil {
			return nil, fmt.Errorf("worker for runs [%d,%d) failed: %v\n%s", from, to, err, tail(stderr.String(), 30000))
		}
	case <-time.After(limit):
		cmd.Process.Kill()
		return nil, fmt.Errorf("worker for runs [%d,%d) exceeded the %v watchdog\n%s", from, to, limit, tail(stderr.String(), 2000))
	}
	data, err := os.ReadFile(out)
	if err != nil {
		return nil, err
	}
	var rep report
	if err := json.Unmarshal(data, &rep); err != nil {
		return nil, fmt.Errorf("bad worker report: %v", err)
	}
	if rep.Stats == nil {
		rep.Stats = newStats()
	}
	if rep.Harness != "" {
		return nil, fmt.Errorf("the race detector reported a race inside the harness itself (no frame of the package under test):\n%s", rep.Harness)
	}
	// nontrivial hashes
	if hb, err := os.ReadFile(out + ".nt"); err == nil {
		rep.LogHashes = append(rep.LogHashes, string(hb)) // smuggled as raw bytes, decoded by the caller
	}
	os.Remove(out)
	os.Remove(out + ".nt")
	return &rep, nil
}

func tail(s string, n int) string {
	if len(s) > n {
		return "…" + s[len(s)-n:]
	}
	return s
}

const maxViolations = 4

func runPhase(b *builds, prop string, ph phase, seed uint64) (*phaseResult, error) {
	res := &phaseResult{phase: ph, stats: newStats(), nontriv: map[uint64]struct{}{}}
	start := time.Now()
	workers := runtime.NumCPU()
	if v, err := strconv.Atoi(os.Getenv("VERIF_WORKERS")); err == nil && v > 0 {
		workers = v
	}
	chunk := ph.Runs / uint64(workers*6)
	if chunk < 25 {
		chunk = 25
	}
	if chunk > 4000 {
		chunk = 4000
	}
	if ph.Race && chunk > 600 {
		chunk = 600
	}
	type job struct{ from, to uint64 }
	var mu sync.Mutex
	next := uint64(0)
	var firstErr error
	stop := false
	take := func() (job, bool) {
		mu.Lock()
		defer mu.Unlock()
		if stop || firstErr != nil || next >= ph.Runs {
			return job{}, false
		}
		if time.Since(start) > ph.MaxWall {
			res.capped = true
			return job{}, false
		}
		j := job{next, next + chunk}
		if j.to > ph.Runs {
			j.to = ph.Runs
		}
		next = j.to
		return j, true
	}
	var wg sync.WaitGroup
	idc := 0
	for w := 0; w < workers; w++ {
		wg.Add(1)
		go func() {
			defer wg.Done()
			for {
				j, ok := take()
				if !ok {
					return
				}
				from := j.from
				for from < j.to {
					mu.Lock()
					idc++
					id := idc
					halted := stop
					mu.Unlock()
					if halted {
						return
					}
					rep, err := runWorker(b, prop, ph, seed, ph.Base+from, ph.Base+j.to, id)
					if rep != nil {
						rep.Next -= ph.Base
					}
					mu.Lock()
					if err != nil {
						if firstErr == nil {
							firstErr = err
						}
						mu.Unlock()
						return
					}
					res.stats.add(rep.Stats)
					res.executed += rep.Next - from
					for _, raw := range rep.LogHashes {
						hb := []byte(raw)
						for i := 0; i+8 <= len(hb); i += 8 {
							res.nontriv[binary.LittleEndian.Uint64(hb[i:])] = struct{}{}
						}
					}
					if len(res.samples) < 3 {
						res.samples = append(res.samples, rep.Samples...)
					}
					for _, f := range rep.Found {
						res.found = append(res.found, foundAt{f, ph.Race, ph.Base + rep.Next - 1, ph.Base + from, ph.Base + j.to, ph.Part})
					}
					if len(res.found) >= maxViolations {
						stop = true
					}
					mu.Unlock()
					if rep.Next <= from {
						break
					}
					from = rep.Next
				}
			}
		}()
	}
	wg.Wait()
	res.wall = time.Since(start).Seconds()
	if firstErr != nil {
		return res, firstErr
	}
	return res, nil
}

// ---------------------------------------------------------------------------
// known findings

type finding struct {
	Property    string `json:"property"`
	Status      string `json:"status"` // open | fixed
	ClassRegex  string `json:"class_regex"`
	DetailRegex string `json:"detail_regex,omitempty"`
	Commit      string `json:"commit,omitempty"`
	What        string `json:"what"`
}

func loadFindings() []finding {
	b, err := os.ReadFile(filepath.Join(root, "known_findings.json"))
	if err != nil {
		return nil
	}
	var f struct {
		Findings []finding `json:"findings"`
	}
	if err := json.Unmarshal(b, &f); err != nil {
		die("known_findings.json: %v", err)
	}
	return f.Findings
}

func matchFinding(fs []finding, v violation) *finding {
	for i := range fs {
		f := &fs[i]
		if f.Status != "open" || f.Property != v.Prop {
			continue
		}
		if ok, _ := regexp.MatchString(f.ClassRegex, v.Class); !ok {
			continue
		}
		if f.DetailRegex != "" {
			if ok, _ := regexp.MatchString(f.DetailRegex, v.Detail); !ok {
				continue
			}
		}
		return f
	}
	return nil
}

// ---------------------------------------------------------------------------
// the check

type replayFile struct {
	Property  string          `json:"property"`
	Kind      string          `json:"kind"`
	Class     string          `json:"class"`
	Detail    string          `json:"detail"`
	Race      bool            `json:"race_build"`
	Seed      uint64          `json:"seed"`
	Run       uint64          `json:"run"`
	Minimised bool            `json:"minimised"`
	Scenario  json.RawMessage `json:"scenario"`
	Original  json.RawMessage `json:"original,omitempty"`
	Trace     []string        `json:"trace,omitempty"`
	All       []violation     `json:"all_violations,omitempty"`
	// Batch is set when the violation depends on something the scenario alone
	// does not determine (the code under test consults map iteration order, the
	// garbage collector, addresses ...): the replay then re-runs the whole range
	// of runs of the worker process that found it, several times if need be.
	Batch *batchRef `json:"batch,omitempty"`
	Note  string    `json:"note,omitempty"`
}

type batchRef struct {
	Part string `json:"part"`
	From uint64 `json:"from"`
	To   uint64 `json:"to"`
}

// batchShows re-runs the runs [from,to) in fresh worker processes (up to tries
// times) and reports whether a violation of the class shows up again.
func batchShows(b *builds, prop string, race bool, seed uint64, br batchRef, class string, tries int) (bool, string) {
	for try := 0; try < tries; try++ {
		rep, err := runWorker(b, prop, phase{Part: br.Part, Race: race}, seed, br.From, br.To, 900000+try, "-no-shrink")
		if err != nil {
			return false, err.Error()
		}
		for _, g := range rep.Found {
			if g.Viol.Class == class {
				return true, g.Viol.Detail
			}
		}
	}
	return false, ""
}

// replayOnce runs a replay file in a fresh worker process.
func replayOnce(b *builds, path string, race bool, trace bool) (code int, out string) {
	bin := b.plain
	env := os.Environ()
	args := []string{"-replay", path}
	if trace {
		args = append(args, "-trace")
	}
	if race {
		bin = b.race
		prefix := filepath.Join(scratch, "out", fmt.Sprintf("replayrace%d", time.Now().UnixNano()))
		env = append(env, "GORACE="+gorace(prefix))
		args = append(args, "-racelog", prefix)
	}
	cmd := exec.Command(bin, args...)
	cmd.Env = env
	o, err := cmd.CombinedOutput()
	if err != nil {
		if ee, ok := err.(*exec.ExitError); ok {
			return ee.ExitCode(), string(o)
		}
		return 2, string(o) + err.Error()
	}
	return 0, string(o)
}

func cmdCheck(prop, tier string, phases []phase) int {
	seed := seedEnv()
	os.Setenv("XPCHECK_TIER", tier)
	if os.Getenv("XPCHECK_SHRINK_TIME") == "" {
		if tier == "thorough" {
			os.Setenv("XPCHECK_SHRINK_TIME", "120s")
		} else {
			os.Setenv("XPCHECK_SHRINK_TIME", "20s")
		}
	}
	needRace := false
	for _, p := range phases {
		needRace = needRace || p.Race
	}
	b := prepare(prop, needRace)
	defer cleanup()
	fmt.Printf("xpcheck: property=%s tier=%s seed=%d  %s  build %.1fs\n", prop, tier, seed, b.instrInfo, b.buildS)

	total := newStats()
	nontriv := map[uint64]struct{}{}
	var allFound []foundAt
	var samples []json.RawMessage
	var phaseInfo []map[string]interface{}
	var executed uint64
	for _, ph := range phases {
		r, err := runPhase(b, prop, ph, seed)
		if err != nil {
			die("%v", err)
		}
		total.add(r.stats)
		for h := range r.nontriv {
			nontriv[h] = struct{}{}
		}
		allFound = append(allFound, r.found...)
		if len(samples) < 3 {
			samples = append(samples, r.samples...)
		}
		executed += r.executed
		build := "plain"
		if ph.Race {
			build = "race"
		}
		mode := ph.Part
		if mode == "" {
			mode = map[string]string{"C04": "H", "C12": "H", "C05": "G"}[prop]
		}
		phaseInfo = append(phaseInfo, map[string]interface{}{"mode": mode, "build": build, "runs_planned": ph.Runs, "runs_executed": r.executed,
			"wall_s": round1(r.wall), "stopped_by_wall_cap": r.capped, "runs_per_hour": int64(float64(r.executed) / r.wall * 3600), "distinct_nontrivial": len(r.nontriv), "violations": len(r.found)})
		fmt.Printf("xpcheck: phase mode=%s build=%s runs=%d/%d wall=%.1fs nontrivial=%d found=%d\n", mode, build, r.executed, ph.Runs, r.wall, len(r.nontriv), len(r.found))
		if len(allFound) >= maxViolations {
			break
		}
	}

	// file, confirm and classify the violations: one report per class
	findings := loadFindings()
	os.MkdirAll(replayDir(), 0o755)
	sort.SliceStable(allFound, func(i, j int) bool { return allFound[i].Viol.Class < allFound[j].Viol.Class })
	seenClass := map[string]bool{}
	var unrepro []string
	exit := 0
	nviol := 0
	var lines []string
	for _, f := range allFound {
		if seenClass[f.Viol.Class] {
			continue
		}
		seenClass[f.Viol.Class] = true
		rf := replayFile{Property: prop, Kind: f.Viol.Kind, Class: f.Viol.Class, Detail: f.Viol.Detail, Race: f.race, Seed: seed, Run: f.run,
			Minimised: f.Confirmed, Scenario: f.Minimised, Original: f.Original, Trace: f.Trace, All: f.All}
		name := fmt.Sprintf("%s-%d-%d.json", prop, seed, f.run)
		path := filepath.Join(replayDir(), name)
		data, _ := json.MarshalIndent(&rf, "", " ")
		if err := os.WriteFile(path, data, 0o644); err != nil {
			die("%v", err)
		}
		// the replay file must reproduce the violation in a fresh process
		ok := false
		var lastOut string
		for try := 0; try < 5 && !ok; try++ {
			code, out := replayOnce(b, path, f.race, false)
			lastOut = out
			if code == 2 {
				die("replaying %s failed:\n%s", path, out)
			}
			ok = code == 1 && strings.Contains(out, "class="+f.Viol.Class)
		}
		if !ok && f.Confirmed && len(f.Original) > 0 {
			// the minimised scenario does not reproduce outside the process that
			// minimised it: fall back to the unminimised trace
			rf.Scenario, rf.Minimised, rf.Trace = f.Original, false, nil
			data, _ = json.MarshalIndent(&rf, "", " ")
			if err := os.WriteFile(path, data, 0o644); err != nil {
				die("%v", err)
			}
			for try := 0; try < 5 && !ok; try++ {
				code, out := replayOnce(b, path, f.race, false)
				lastOut = out
				ok = code == 1 && strings.Contains(out, "class="+f.Viol.Class)
			}
			f.Confirmed = false
		}
		if !ok {
			// Not reproducible from the scenario alone. If the code under test consults
			// something outside its inputs (map iteration order, addresses, the garbage
			// collector), the whole history of the worker process may still bring the
			// violation back: re-run exactly the runs that process had executed.
			br := batchRef{Part: f.part, From: f.from, To: f.to}
			if shows, _ := batchShows(b, prop, f.race, seed, br, f.Viol.Class, 6); shows {
				ok = true
				rf.Batch, rf.Minimised, rf.Trace = &br, false, nil
				rf.Scenario = f.Original
				if len(rf.Scenario) == 0 {
					rf.Scenario = f.Minimised
				}
				rf.Note = "the violation does not follow from this scenario alone: the code under test depends on something outside its inputs (map iteration order, addresses, garbage collection ...). Replaying re-runs the worker's whole range of runs, up to five times."
				data, _ = json.MarshalIndent(&rf, "", " ")
				if err := os.WriteFile(path, data, 0o644); err != nil {
					die("%v", err)
				}
				f.Confirmed = false
			}
		}
		if !ok {
			// observed in the batch, not reproducible from its replay file: never
			// reported as a violation. If nothing else is found either, the check
			// ends with exit 2 (harness trouble), see below.
			unrepro = append(unrepro, fmt.Sprintf("%s: %s (replay file %s)\n%s", f.Viol.Class, f.Viol.Detail, path, tail(lastOut, 600)))
			os.Remove(path)
			continue
		}
		if kf := matchFinding(findings, f.Viol); kf != nil {
			lines = append(lines, fmt.Sprintf("KNOWN-FINDING: property=%s %s [class %s, replay %s]", prop, kf.What, f.Viol.Class, path))
			continue
		}
		nviol++
		exit = 1
		fmt.Printf("violation: kind=%s class=%s\n  %s\n  minimised=%v after %d executions\n", f.Viol.Kind, f.Viol.Class, f.Viol.Detail, f.Confirmed, f.ShrinkExecs)
		lines = append(lines, fmt.Sprintf("VIOLATION property=%s replay=%s", prop, path))
	}

	if len(unrepro) > 0 {
		for _, u := range unrepro {
			fmt.Fprintf(os.Stderr, "xpcheck: note: observed during the batch but not reproducible from its replay file in a fresh process, therefore not reported: %s\n", u)
		}
		if len(lines) == 0 {
			die("violations were observed during the batch but none of them replays in a fresh process; treating this as harness trouble, not as a verdict")
		}
	}
	wall := time.Since(t0).Seconds()
	writeEvidence(prop, tier, seed, executed, nontriv, total, samples, phaseInfo, wall, nviol, b)
	for _, l := range lines {
		fmt.Println(l)
	}
	if exit == 0 {
		fmt.Printf("xpcheck: property=%s held on %d simulated runs (%d distinct non-trivial), %.1fs\n", prop, executed, len(nontriv), wall)
	}
	return exit
}

func round1(f float64) float64 { return float64(int64(f*10+0.5)) / 10 }

var rules = map[string]string{
	"C04": "Each evaluation is one seeded history (mode H): 1-3 generated documents, 1-5 generated expressions compiled ONCE, 6-60 operations (Select, Evaluate, MoveNext on any live iterator, abandon, probe, navigator-panic at the k-th navigator call, cache swap) on those shared *Expr; every value / node id is compared with the same call on a freshly compiled expression run alone, all reference outcomes are recomputed at the end, and one run in a hundred recomputes them in pristine child processes. Swarm options per run: client cache of tiny capacity, pool variant, CompileWithNS (two binding variants), MustCompile, a focus function fed context-dependent arguments, documents over a tight value alphabet. A run counts as non-trivial when at least one of its shared expressions had two or more operations compared with the oracle; distinct = distinct scenario hash (documents, expression texts, operation list, configuration).",
	"C05": "Each evaluation is one seeded goroutine run (mode G): 2-4 tasks (real goroutines, exactly one runnable at a time, the next chosen by the seeded scheduler at navigator / lock / pool / loader / function-entry yield points) executing Select / Evaluate / Compile programs on 1-4 shared *Expr. Oracles: every operation's outcome equals its solo outcome; step budget; modelled-lock deadlock (with Go's rule that a pending Lock blocks later RLocks); and, in the race build, the Go race detector made schedule-deterministic (scheduler hand-offs hidden with RaceDisable). Swarm options: compile storms (only concurrent Compile / CompileWithNS calls, optionally after a warm-up and an in-place re-binding of the namespace map), regex-focused runs, navigator panics, cold-process runs (one in eight: executed in a pristine child process, references computed after the concurrent phase). A run is non-trivial when at some task switch another task was in the middle of an operation on the same *Expr; distinct = distinct (scenario hash, schedule hash).",
	"C12": "Each evaluation is one seeded iterator-protocol history (mode H): 1-3 live iterators from Select and Evaluate over generated node-set expressions (half from the flat fragment), stepped by MoveNext / Current / walk-a-copy / extra MoveNext after false / abandon, each call checked against a list-cursor model whose sequence is the solo Select result; plus, per (expression, document, context), the relations Evaluate==Select, count()==length, reverse()==reversed and strict document order for flat paths. Non-trivial: an iterator over a sequence of two or more nodes was advanced, or the relations were checked on such a sequence; distinct = distinct scenario hash.",
	"C16": "Each evaluation is one seeded cache run: mode H = a sequential history of 5-60 get / matches() / replace() / bad-pattern Compile operations over 2-8 generated patterns against a client cache of capacity 0-5 (or the default cache), with loader failures and cache swaps; mode G = 2-4 tasks doing the same concurrently under the seeded scheduler, which interleaves inside the unlocked window (the harness loader is a yield point). Invariants I1-I6 (exact, bounded, failures not remembered, bad constant pattern rejected, race/deadlock-free, stored implies loaded) are checked after every step (H) or at every scheduling point (G, plain build), data results against Go's regexp; race build adds the race oracle. Non-trivial: H: at least 3 operations over at least 2 keys; G: a task switch while another task is inside an operation on the same key. Distinct = distinct (scenario hash, schedule hash).",
}

func writeEvidence(prop, tier string, seed uint64, executed uint64, nontriv map[uint64]struct{}, st *stats, samples []json.RawMessage, phases []map[string]interface{}, wall float64, nviol int, b *builds) {
	if len(samples) > 3 {
		samples = samples[:3]
	}
	var smp []interface{}
	for _, s := range samples {
		var v interface{}
		json.Unmarshal(s, &v)
		if m, ok := v.(map[string]interface{}); ok {
			if sc, ok := m["sched"].([]interface{}); ok && len(sc) > 60 {
				m["sched"] = sc[:60]
				m["sched_note"] = fmt.Sprintf("explicit schedule [task, points, ...] truncated here to 30 of %d segments", len(sc)/2)
			}
		}
		smp = append(smp, v)
	}
	cov := map[string]interface{}{
		"evaluations":                        executed,
		"distinct_nontrivial":                len(nontriv),
		"rule":                               rules[prop],
		"samples":                            smp,
		"phases":                             phases,
		"simulated_time_steps":               st.Steps,
		"navigator_calls":                    st.NavCalls,
		"operations":                         st.Ops,
		"operations_compared_with_oracle":    st.OpsCompared,
		"reference_runs_over_budget_skipped": st.SoloDiverged,
		"faults_fired":                       st.Faults,
		"probes":                             st.Probes,
		"yield_points_by_kind":               st.Yields,
		"scheduling_points":                  st.Points,
		"task_switches":                      st.Switches,
		"preemptions":                        st.Preempts,
		"runs_per_hour":                      int64(float64(executed) / wall * 3600),
		"instrumentation":                    b.instrInfo,
		"components_real":                    []string{"Compile/CompileWithNS/MustCompile, parser, builder, every query type, Select, Evaluate, NodeIterator, operators, functions, loadingCache, getRegexp, builderPool users (all of /repo's current working tree, instrumented copy: import \"sync\" -> shim, function-entry yields)"},
		"components_stub":                    []string{"the document and its NodeNavigator (harness-owned by the API's design)", "the loadFunc of client-constructed caches (wraps regexp.Compile, adds yields and injected failures)", "sync.RWMutex / sync.Pool announce their operations through the shim (real primitives underneath; deterministic LIFO pool variant in half of the runs)"},
	}
	// reach over the package's functions (function-entry events inside simulated operations)
	if fb, err := os.ReadFile(filepath.Join(scratch, "xpath", "verif_funcs.txt")); err == nil {
		var never []string
		total := 0
		for _, name := range strings.Fields(string(fb)) {
			if strings.HasPrefix(name, "Verif") {
				continue
			}
			total++
			if st.Funcs[name] == 0 {
				never = append(never, name)
			}
		}
		cov["package_functions_instrumented"] = total
		cov["package_functions_entered"] = total - len(never)
		cov["package_functions_never_entered"] = never
	}
	ev := map[string]interface{}{
		"property_id": prop,
		"tier":        tier,
		"seed":        seed,
		"level":       "exploration",
		"coverage":    cov,
		"assumptions": []string{
			"sampling, not proof: a clean batch is evidence bounded by the reach numbers above",
			"each call gets its own navigator; navigators are well behaved (MoveTo succeeds within one document, never across documents)",
			"interleavings are explored at yield points (navigator calls, lock/pool/loader events, function entries), not between two plain memory accesses inside one function; the race oracle covers unsynchronised accesses regardless of where the switch happened",
			"go toolchain, race detector and regexp package are trusted",
		},
		"wall_s":     round1(wall),
		"violations": nviol,
	}
	os.MkdirAll(evidenceDir(), 0o755)
	data, _ := json.MarshalIndent(ev, "", " ")
	if err := os.WriteFile(filepath.Join(evidenceDir(), prop+".json"), data, 0o644); err != nil {
		die("%v", err)
	}
}

// ---------------------------------------------------------------------------
// replay

func cmdReplay(path string) int {
	data, err := os.ReadFile(path)
	if err != nil {
		die("%v", err)
	}
	var rf replayFile
	if err := json.Unmarshal(data, &rf); err != nil {
		die("bad replay file %s: %v", path, err)
	}
	b := prepare("replay", rf.Race)
	defer cleanup()
	abs, _ := filepath.Abs(path)
	if rf.Batch != nil {
		shows, detail := batchShows(b, rf.Property, rf.Race, rf.Seed, *rf.Batch, rf.Class, 5)
		if shows {
			fmt.Printf("violation kind=%s class=%s: %s\n(re-ran runs [%d,%d) of seed %d)\n", rf.Kind, rf.Class, detail, rf.Batch.From, rf.Batch.To, rf.Seed)
			fmt.Printf("VIOLATION property=%s replay=%s\n", rf.Property, abs)
			return 1
		}
		if detail != "" {
			die("replay failed: %s", detail)
		}
		fmt.Printf("xpcheck: %s no longer fails on the current tree (5 re-runs of runs [%d,%d))\n", path, rf.Batch.From, rf.Batch.To)
		return 0
	}
	code, out := replayOnce(b, abs, rf.Race, true)
	fmt.Print(out)
	switch code {
	case 0:
		fmt.Printf("xpcheck: %s no longer fails on the current tree\n", path)
		return 0
	case 1:
		fmt.Printf("VIOLATION property=%s replay=%s\n", rf.Property, abs)
		return 1
	}
	die("replay failed")
	return 2
}

// ---------------------------------------------------------------------------
// determinism self-test: same seed => same event log, across processes,
// builds and GOMAXPROCS.

func cmdDeterminism(n int) int {
	b := prepare("selftest", true)
	defer cleanup()
	type cfg struct {
		prop, part string
		race       bool
		procs      string
	}
	var cfgs []cfg
	for _, p := range []struct{ prop, part string }{{"C04", ""}, {"C12", ""}, {"C16", "H"}, {"C16", "G"}, {"C05", ""}} {
		for _, race := range []bool{false, true} {
			if race && (p.prop == "C04" || p.prop == "C12" || p.part == "H") {
				continue
			}
			for _, procs := range []string{"1", "4", "16"} {
				cfgs = append(cfgs, cfg{p.prop, p.part, race, procs})
			}
		}
	}
	type key struct {
		prop, part string
		race       bool
	}
	ref := map[key][]string{}
	bad := 0
	var mu sync.Mutex
	var wg sync.WaitGroup
	sem := make(chan struct{}, runtime.NumCPU())
	id := 0
	for _, c := range cfgs {
		for rep := 0; rep < 2; rep++ {
			wg.Add(1)
			id++
			go func(c cfg, id int, rep int) {
				defer wg.Done()
				sem <- struct{}{}
				defer func() { <-sem }()
				ph := phase{Part: c.part, Race: c.race}
				// the second repeat executes only the second half of the run indices, in
				// its own process: a run must not depend on what ran before it
				from := uint64(0)
				if rep == 1 {
					from = uint64(n / 2)
				}
				r, err := runWorker(b, c.prop, ph, 7, from, uint64(n), id, "ENV:GOMAXPROCS="+c.procs, "-hashes", "-no-shrink")
				mu.Lock()
				defer mu.Unlock()
				if err != nil {
					fmt.Println("selftest:", err)
					bad++
					return
				}
				k := key{c.prop, c.part, c.race}
				var hs []string
				for _, h := range r.LogHashes {
					if strings.Count(h, ":") == 2 && len(h) < 80 {
						hs = append(hs, h)
					}
				}
				if prev, ok := ref[k]; ok {
					// compare on the common run indices
					pm := map[string]string{}
					for _, h := range prev {
						pm[h[:strings.Index(h, ":")]] = h
					}
					same := len(hs) > 0
					for _, h := range hs {
						if o, ok := pm[h[:strings.Index(h, ":")]]; ok && o != h {
							same = false
						}
					}
					if !same {
						bad++
						fmt.Printf("selftest: NONDETERMINISM prop=%s part=%s race=%v GOMAXPROCS=%s\n", c.prop, c.part, c.race, c.procs)
					}
				} else if rep == 0 {
					ref[k] = hs
				} else {
					// the full batch has not reported yet: keep this half as reference
					ref[k] = hs
				}
			}(c, id, rep)
		}
	}
	wg.Wait()
	fmt.Printf("selftest-determinism: %d configurations x 2 repeats x %d runs, %d mismatches\n", len(cfgs), n, bad)
	if bad > 0 {
		return 1
	}
	return 0
}
