//go:build go1.19
// +build go1.19

package atomic

import (
	ra "sync/atomic"
	"unsafe"
)

// Pointer mirrors sync/atomic.Pointer. It is generic, so a package under test
// can only use it when its go.mod says go >= 1.19; this file's build
// constraint gives it that language version.
type Pointer[T any] struct{ v ra.Pointer[T] }

func (x *Pointer[T]) Load() *T     { fire(unsafe.Pointer(x)); return x.v.Load() }
func (x *Pointer[T]) Store(val *T) { fire(unsafe.Pointer(x)); x.v.Store(val) }
func (x *Pointer[T]) Swap(n *T) *T { fire(unsafe.Pointer(x)); return x.v.Swap(n) }
func (x *Pointer[T]) CompareAndSwap(o, n *T) bool {
	fire(unsafe.Pointer(x))
	return x.v.CompareAndSwap(o, n)
}
