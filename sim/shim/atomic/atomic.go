// Package atomic stands in for "sync/atomic" inside the instrumented scratch
// copy of the package under test: every atomic operation is announced to the
// simulator before it is performed, so that the seeded scheduler can switch
// tasks between two atomic operations of lock-free code. The operations
// themselves are the real ones. go1.14 language level (no generics here; see
// pointer.go).
package atomic

import (
	ra "sync/atomic"
	"unsafe"

	vs "github.com/antchfx/xpath/verifsync"
)

func fire(p unsafe.Pointer) { vs.Fire(vs.EvAtomic, uintptr(p)) }

// Value mirrors sync/atomic.Value.
type Value struct{ v ra.Value }

func (x *Value) Load() interface{}              { fire(unsafe.Pointer(x)); return x.v.Load() }
func (x *Value) Store(val interface{})          { fire(unsafe.Pointer(x)); x.v.Store(val) }
func (x *Value) Swap(n interface{}) interface{} { fire(unsafe.Pointer(x)); return x.v.Swap(n) }
func (x *Value) CompareAndSwap(o, n interface{}) bool {
	fire(unsafe.Pointer(x))
	return x.v.CompareAndSwap(o, n)
}

// Bool mirrors sync/atomic.Bool.
type Bool struct{ v ra.Bool }

func (x *Bool) Load() bool       { fire(unsafe.Pointer(x)); return x.v.Load() }
func (x *Bool) Store(val bool)   { fire(unsafe.Pointer(x)); x.v.Store(val) }
func (x *Bool) Swap(n bool) bool { fire(unsafe.Pointer(x)); return x.v.Swap(n) }
func (x *Bool) CompareAndSwap(o, n bool) bool {
	fire(unsafe.Pointer(x))
	return x.v.CompareAndSwap(o, n)
}

func LoadPointer(addr *unsafe.Pointer) unsafe.Pointer {
	fire(unsafe.Pointer(addr))
	return ra.LoadPointer(addr)
}
func StorePointer(addr *unsafe.Pointer, v unsafe.Pointer) {
	fire(unsafe.Pointer(addr))
	ra.StorePointer(addr, v)
}
func SwapPointer(addr *unsafe.Pointer, n unsafe.Pointer) unsafe.Pointer {
	fire(unsafe.Pointer(addr))
	return ra.SwapPointer(addr, n)
}
func CompareAndSwapPointer(addr *unsafe.Pointer, o, n unsafe.Pointer) bool {
	fire(unsafe.Pointer(addr))
	return ra.CompareAndSwapPointer(addr, o, n)
}

// Int32 mirrors sync/atomic.Int32.
type Int32 struct{ v ra.Int32 }

func (x *Int32) Load() int32        { fire(unsafe.Pointer(x)); return x.v.Load() }
func (x *Int32) Store(val int32)    { fire(unsafe.Pointer(x)); x.v.Store(val) }
func (x *Int32) Swap(n int32) int32 { fire(unsafe.Pointer(x)); return x.v.Swap(n) }
func (x *Int32) CompareAndSwap(o, n int32) bool {
	fire(unsafe.Pointer(x))
	return x.v.CompareAndSwap(o, n)
}
func (x *Int32) Add(d int32) int32 { fire(unsafe.Pointer(x)); return x.v.Add(d) }

func LoadInt32(addr *int32) int32          { fire(unsafe.Pointer(addr)); return ra.LoadInt32(addr) }
func StoreInt32(addr *int32, v int32)      { fire(unsafe.Pointer(addr)); ra.StoreInt32(addr, v) }
func SwapInt32(addr *int32, n int32) int32 { fire(unsafe.Pointer(addr)); return ra.SwapInt32(addr, n) }
func AddInt32(addr *int32, d int32) int32  { fire(unsafe.Pointer(addr)); return ra.AddInt32(addr, d) }
func CompareAndSwapInt32(addr *int32, o, n int32) bool {
	fire(unsafe.Pointer(addr))
	return ra.CompareAndSwapInt32(addr, o, n)
}

// Int64 mirrors sync/atomic.Int64.
type Int64 struct{ v ra.Int64 }

func (x *Int64) Load() int64        { fire(unsafe.Pointer(x)); return x.v.Load() }
func (x *Int64) Store(val int64)    { fire(unsafe.Pointer(x)); x.v.Store(val) }
func (x *Int64) Swap(n int64) int64 { fire(unsafe.Pointer(x)); return x.v.Swap(n) }
func (x *Int64) CompareAndSwap(o, n int64) bool {
	fire(unsafe.Pointer(x))
	return x.v.CompareAndSwap(o, n)
}
func (x *Int64) Add(d int64) int64 { fire(unsafe.Pointer(x)); return x.v.Add(d) }

func LoadInt64(addr *int64) int64          { fire(unsafe.Pointer(addr)); return ra.LoadInt64(addr) }
func StoreInt64(addr *int64, v int64)      { fire(unsafe.Pointer(addr)); ra.StoreInt64(addr, v) }
func SwapInt64(addr *int64, n int64) int64 { fire(unsafe.Pointer(addr)); return ra.SwapInt64(addr, n) }
func AddInt64(addr *int64, d int64) int64  { fire(unsafe.Pointer(addr)); return ra.AddInt64(addr, d) }
func CompareAndSwapInt64(addr *int64, o, n int64) bool {
	fire(unsafe.Pointer(addr))
	return ra.CompareAndSwapInt64(addr, o, n)
}

// Uint32 mirrors sync/atomic.Uint32.
type Uint32 struct{ v ra.Uint32 }

func (x *Uint32) Load() uint32         { fire(unsafe.Pointer(x)); return x.v.Load() }
func (x *Uint32) Store(val uint32)     { fire(unsafe.Pointer(x)); x.v.Store(val) }
func (x *Uint32) Swap(n uint32) uint32 { fire(unsafe.Pointer(x)); return x.v.Swap(n) }
func (x *Uint32) CompareAndSwap(o, n uint32) bool {
	fire(unsafe.Pointer(x))
	return x.v.CompareAndSwap(o, n)
}
func (x *Uint32) Add(d uint32) uint32 { fire(unsafe.Pointer(x)); return x.v.Add(d) }

func LoadUint32(addr *uint32) uint32     { fire(unsafe.Pointer(addr)); return ra.LoadUint32(addr) }
func StoreUint32(addr *uint32, v uint32) { fire(unsafe.Pointer(addr)); ra.StoreUint32(addr, v) }
func SwapUint32(addr *uint32, n uint32) uint32 {
	fire(unsafe.Pointer(addr))
	return ra.SwapUint32(addr, n)
}
func AddUint32(addr *uint32, d uint32) uint32 {
	fire(unsafe.Pointer(addr))
	return ra.AddUint32(addr, d)
}
func CompareAndSwapUint32(addr *uint32, o, n uint32) bool {
	fire(unsafe.Pointer(addr))
	return ra.CompareAndSwapUint32(addr, o, n)
}

// Uint64 mirrors sync/atomic.Uint64.
type Uint64 struct{ v ra.Uint64 }

func (x *Uint64) Load() uint64         { fire(unsafe.Pointer(x)); return x.v.Load() }
func (x *Uint64) Store(val uint64)     { fire(unsafe.Pointer(x)); x.v.Store(val) }
func (x *Uint64) Swap(n uint64) uint64 { fire(unsafe.Pointer(x)); return x.v.Swap(n) }
func (x *Uint64) CompareAndSwap(o, n uint64) bool {
	fire(unsafe.Pointer(x))
	return x.v.CompareAndSwap(o, n)
}
func (x *Uint64) Add(d uint64) uint64 { fire(unsafe.Pointer(x)); return x.v.Add(d) }

func LoadUint64(addr *uint64) uint64     { fire(unsafe.Pointer(addr)); return ra.LoadUint64(addr) }
func StoreUint64(addr *uint64, v uint64) { fire(unsafe.Pointer(addr)); ra.StoreUint64(addr, v) }
func SwapUint64(addr *uint64, n uint64) uint64 {
	fire(unsafe.Pointer(addr))
	return ra.SwapUint64(addr, n)
}
func AddUint64(addr *uint64, d uint64) uint64 {
	fire(unsafe.Pointer(addr))
	return ra.AddUint64(addr, d)
}
func CompareAndSwapUint64(addr *uint64, o, n uint64) bool {
	fire(unsafe.Pointer(addr))
	return ra.CompareAndSwapUint64(addr, o, n)
}

// Uintptr mirrors sync/atomic.Uintptr.
type Uintptr struct{ v ra.Uintptr }

func (x *Uintptr) Load() uintptr          { fire(unsafe.Pointer(x)); return x.v.Load() }
func (x *Uintptr) Store(val uintptr)      { fire(unsafe.Pointer(x)); x.v.Store(val) }
func (x *Uintptr) Swap(n uintptr) uintptr { fire(unsafe.Pointer(x)); return x.v.Swap(n) }
func (x *Uintptr) CompareAndSwap(o, n uintptr) bool {
	fire(unsafe.Pointer(x))
	return x.v.CompareAndSwap(o, n)
}
func (x *Uintptr) Add(d uintptr) uintptr { fire(unsafe.Pointer(x)); return x.v.Add(d) }

func LoadUintptr(addr *uintptr) uintptr     { fire(unsafe.Pointer(addr)); return ra.LoadUintptr(addr) }
func StoreUintptr(addr *uintptr, v uintptr) { fire(unsafe.Pointer(addr)); ra.StoreUintptr(addr, v) }
func SwapUintptr(addr *uintptr, n uintptr) uintptr {
	fire(unsafe.Pointer(addr))
	return ra.SwapUintptr(addr, n)
}
func AddUintptr(addr *uintptr, d uintptr) uintptr {
	fire(unsafe.Pointer(addr))
	return ra.AddUintptr(addr, d)
}
func CompareAndSwapUintptr(addr *uintptr, o, n uintptr) bool {
	fire(unsafe.Pointer(addr))
	return ra.CompareAndSwapUintptr(addr, o, n)
}
