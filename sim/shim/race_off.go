//go:build !race
// +build !race

package verifsync

import "unsafe"

func raceDisable()                      {}
func raceEnable()                       {}
func raceAcquire(p unsafe.Pointer)      {}
func raceReleaseMerge(p unsafe.Pointer) {}
