//go:build race
// +build race

package verifsync

import (
	"runtime"
	"unsafe"
)

func raceDisable()                      { runtime.RaceDisable() }
func raceEnable()                       { runtime.RaceEnable() }
func raceAcquire(p unsafe.Pointer)      { runtime.RaceAcquire(p) }
func raceReleaseMerge(p unsafe.Pointer) { runtime.RaceReleaseMerge(p) }
