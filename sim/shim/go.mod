module shimsrc

go 1.14
