// Package verifsync stands in for package "sync" inside the instrumented
// scratch copy of github.com/antchfx/xpath that the /verif checks build. It is
// never part of /repo. It is written at the go1.14 language level of the module
// under test (no generics), because it is compiled as part of that module.
//
// Every lock operation, every pool operation and every function entry of the
// package under test is announced to a hook installed by the simulator. With
// no hook installed each entry point costs one atomic load.
package verifsync

import (
	"reflect"
	"runtime"
	"sync"
	"sync/atomic"
	"unsafe"
)

// Event kinds passed to the hook.
const (
	EvEnter   = iota // entry of a package function; name = "Recv.Func"
	EvRLock          // about to take a read lock; obj identifies the lock
	EvRUnlock        // read lock released
	EvLock           // about to take a write (or plain mutex) lock
	EvUnlock         // write lock released
	EvPoolGet        // about to Get from a pool
	EvPoolPut        // about to Put into a pool
	EvAtomic         // about to perform a sync/atomic operation; obj identifies the variable
)

// Hook receives every announced event. It may block the calling goroutine
// (that is how the simulator parks a task) and it may panic (that is how the
// simulator aborts an operation that exceeded its step budget).
type Hook func(kind int, obj uintptr, name string)

var (
	on       int32
	hook     atomic.Value // Hook
	poolMode int32
)

// SetHook installs h; SetHook(nil) removes the hook.
func SetHook(h Hook) {
	if h == nil {
		atomic.StoreInt32(&on, 0)
		return
	}
	hook.Store(h)
	atomic.StoreInt32(&on, 1)
}

// Pool variants.
const (
	PoolLIFO  = 0 // always hand out the most recently returned object if there is one
	PoolFresh = 1 // never reuse: every Get builds a new object
)

// SetPoolMode selects the pool variant used by every Pool.
func SetPoolMode(m int) { atomic.StoreInt32(&poolMode, int32(m)) }

func fire(kind int, obj uintptr, name string) {
	if atomic.LoadInt32(&on) == 0 {
		return
	}
	hook.Load().(Hook)(kind, obj, name)
}

// Fire announces an event on behalf of the atomic shim.
func Fire(kind int, obj uintptr) { fire(kind, obj, "") }

// Enter is inserted by the instrumenter at the top of every function of the
// package under test.
func Enter(name string) {
	if atomic.LoadInt32(&on) == 0 {
		return
	}
	hook.Load().(Hook)(EvEnter, 0, name)
}

// Aliases for everything in sync that needs no interception, so that an edited
// tree using them still compiles after the import rewrite.
type (
	Locker    = sync.Locker
	Once      = sync.Once
	WaitGroup = sync.WaitGroup
	Map       = sync.Map
	Cond      = sync.Cond
)

// NewCond mirrors sync.NewCond.
func NewCond(l Locker) *Cond { return sync.NewCond(l) }

// Mutex wraps sync.Mutex.
type Mutex struct {
	mu sync.Mutex
}

func (m *Mutex) Lock() {
	fire(EvLock, uintptr(unsafe.Pointer(m)), "")
	m.mu.Lock()
}

func (m *Mutex) Unlock() {
	m.mu.Unlock()
	fire(EvUnlock, uintptr(unsafe.Pointer(m)), "")
}

func (m *Mutex) TryLock() bool { return m.mu.TryLock() }

// RWMutex wraps sync.RWMutex.
type RWMutex struct {
	mu sync.RWMutex
}

func (m *RWMutex) RLock() {
	fire(EvRLock, uintptr(unsafe.Pointer(m)), "")
	m.mu.RLock()
}

func (m *RWMutex) RUnlock() {
	m.mu.RUnlock()
	fire(EvRUnlock, uintptr(unsafe.Pointer(m)), "")
}

func (m *RWMutex) Lock() {
	fire(EvLock, uintptr(unsafe.Pointer(m)), "")
	m.mu.Lock()
}

func (m *RWMutex) Unlock() {
	m.mu.Unlock()
	fire(EvUnlock, uintptr(unsafe.Pointer(m)), "")
}

func (m *RWMutex) TryLock() bool  { return m.mu.TryLock() }
func (m *RWMutex) TryRLock() bool { return m.mu.TryRLock() }

// RLocker mirrors (*sync.RWMutex).RLocker.
func (m *RWMutex) RLocker() Locker { return (*rlocker)(m) }

type rlocker RWMutex

func (r *rlocker) Lock()   { (*RWMutex)(r).RLock() }
func (r *rlocker) Unlock() { (*RWMutex)(r).RUnlock() }

// Pool stands in for sync.Pool. The exported field New has the same meaning,
// so the composite literal sync.Pool{New: f} keeps compiling.
//
// sync.Pool may hand back any previously Put object or none at all, and its
// choice depends on GC timing and on which P a goroutine runs - neither is
// reproducible. This Pool makes one of two legal, deterministic choices:
// PoolLIFO always returns the most recently Put object (maximal reuse, so a
// missing Reset shows), PoolFresh never reuses anything. In the race build it
// creates exactly the happens-before edge sync.Pool creates (Put(x) before
// the Get that returns x) and no other, so it can neither hide nor invent a
// race between pool users.
type Pool struct {
	New func() interface{}

	mu         sync.Mutex
	free       [poolSlots]interface{}
	n          int
	registered bool
}

const poolSlots = 64

var (
	poolsMu sync.Mutex
	pools   []*Pool
)

// ResetPools empties every pool (called by the simulator between runs, so
// that a run is a pure function of its scenario).
//
//go:norace
func ResetPools() {
	poolsMu.Lock()
	for _, p := range pools {
		for i := 0; i < p.n; i++ {
			p.free[i] = nil
		}
		p.n = 0
	}
	poolsMu.Unlock()
}

// pop and push touch the free list without race instrumentation and with
// synchronisation events ignored: the list is simulator state, not state of
// the program under test.
//
//go:norace
func (p *Pool) pop() interface{} {
	raceDisable()
	p.mu.Lock()
	var x interface{}
	if p.n > 0 {
		p.n--
		x = p.free[p.n]
		p.free[p.n] = nil
	}
	p.mu.Unlock()
	raceEnable()
	return x
}

//go:norace
func (p *Pool) push(x interface{}) {
	raceDisable()
	p.mu.Lock()
	if !p.registered {
		p.registered = true
		poolsMu.Lock()
		pools = append(pools, p)
		poolsMu.Unlock()
	}
	if p.n < poolSlots {
		p.free[p.n] = x
		p.n++
	}
	p.mu.Unlock()
	raceEnable()
}

func (p *Pool) Get() interface{} {
	fire(EvPoolGet, uintptr(unsafe.Pointer(p)), "")
	if atomic.LoadInt32(&poolMode) == PoolLIFO {
		if x := p.pop(); x != nil {
			raceAcquire(poolRaceAddr(x))
			return x
		}
	}
	if p.New != nil {
		return p.New()
	}
	return nil
}

func (p *Pool) Put(x interface{}) {
	fire(EvPoolPut, uintptr(unsafe.Pointer(p)), "")
	if x == nil {
		return
	}
	if atomic.LoadInt32(&poolMode) == PoolLIFO {
		raceReleaseMerge(poolRaceAddr(x))
		p.push(x)
	}
}

var poolRaceHash [128]uint64

// poolRaceAddr mirrors sync.Pool: the synchronisation address of an object.
func poolRaceAddr(x interface{}) unsafe.Pointer {
	ptr := uintptr((*[2]unsafe.Pointer)(unsafe.Pointer(&x))[1])
	h := uint32((uint64(uint32(ptr)) * 0x85ebca6b) >> 16)
	return unsafe.Pointer(&poolRaceHash[h%uint32(len(poolRaceHash))])
}

// ---------------------------------------------------------------------------
// Finalizers. The instrumenter rewrites runtime.SetFinalizer into SetFinalizer:
// the garbage collector still decides WHEN an object is found unreachable, but
// the finalizer itself - code of the package under test - never runs on the
// runtime's finalizer goroutine. It is queued, and the simulator runs the queue
// on a goroutine it owns, between two simulated operations (RunFinalizers).

var (
	finMu    sync.Mutex
	finQueue []func()
	finCount int64
	finSet   int64 // SetFinalizer calls so far in this process
)

// FinalizersRegistered: how often the package under test has called
// SetFinalizer in this process.
func FinalizersRegistered() int { return int(atomic.LoadInt64(&finSet)) }

// SetFinalizer stands in for runtime.SetFinalizer.
func SetFinalizer(obj interface{}, finalizer interface{}) {
	if finalizer == nil {
		runtime.SetFinalizer(obj, nil)
		return
	}
	atomic.AddInt64(&finSet, 1)
	fv := reflect.ValueOf(finalizer)
	if fv.Kind() != reflect.Func {
		runtime.SetFinalizer(obj, finalizer) // let the runtime complain
		return
	}
	ft := fv.Type()
	wrapper := reflect.MakeFunc(ft, func(args []reflect.Value) []reflect.Value {
		kept := append([]reflect.Value(nil), args...)
		finMu.Lock()
		finQueue = append(finQueue, func() { fv.Call(kept) })
		finMu.Unlock()
		atomic.AddInt64(&finCount, 1)
		out := make([]reflect.Value, ft.NumOut())
		for i := range out {
			out[i] = reflect.Zero(ft.Out(i))
		}
		return out
	})
	runtime.SetFinalizer(obj, wrapper.Interface())
}

// PendingFinalizers is the number of queued finalizers (one atomic load).
func PendingFinalizers() int { return int(atomic.LoadInt64(&finCount)) }

// RunFinalizers runs the queued finalizers on the calling goroutine, in the
// order in which the collector queued them, and returns how many it ran.
func RunFinalizers() int {
	if atomic.LoadInt64(&finCount) == 0 {
		return 0
	}
	finMu.Lock()
	q := finQueue
	finQueue = nil
	atomic.StoreInt64(&finCount, 0)
	finMu.Unlock()
	for _, f := range q {
		f()
	}
	return len(q)
}

// DropFinalizers forgets the queued finalizers (start of a new simulated run).
func DropFinalizers() {
	finMu.Lock()
	finQueue = nil
	atomic.StoreInt64(&finCount, 0)
	finMu.Unlock()
}
