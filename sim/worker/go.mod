module verifsimw

go 1.23

require (
	github.com/antchfx/xpath v0.0.0
	verifsim v0.0.0
)

replace verifsim => ../

replace github.com/antchfx/xpath => /var/tmp/xpverif.dev/xpath
