// Package world is the environment side of the simulation: immutable documents
// and the navigator through which the engine under test sees them. The
// navigator is the package's only "I/O", so every method is a step of logical
// time, a yield point for the scheduler and a crash point for the fault plan.
package world

import (
	"strings"
	"sync/atomic"

	"github.com/antchfx/xpath"
	"verifsim/scn"
)

// Node is one node of a built document. ID is its document-order position
// (root 0; an element's attributes come right after it, before its children).
type Node struct {
	ID       int
	Kind     xpath.NodeType
	Local    string
	Prefix   string
	NS       string
	Data     string // text / comment / attribute value
	Parent   *Node
	Attrs    []*Node
	Children []*Node
	Index    int // position among the parent's children (or attributes)
	value    string
}

// Doc is an immutable document.
type Doc struct {
	NoNS  bool // navigated through PlainNav (no NamespaceURL method)
	Idx   int
	Root  *Node
	Nodes []*Node // by ID
}

// Build turns a replay-file document into a Doc.
func Build(idx int, spec scn.DocSpec) *Doc {
	d := &Doc{Idx: idx, NoNS: spec.NoNS}
	d.Root = &Node{Kind: xpath.RootNode}
	d.add(d.Root)
	var build func(parent *Node, specs []*scn.NodeSpec)
	build = func(parent *Node, specs []*scn.NodeSpec) {
		for _, s := range specs {
			n := &Node{Parent: parent, Index: len(parent.Children)}
			switch s.K {
			case "e":
				n.Kind = xpath.ElementNode
				n.Local = s.N
				if i := strings.IndexByte(s.N, ':'); i >= 0 {
					n.Prefix, n.Local = s.N[:i], s.N[i+1:]
				}
				n.NS = s.NS
			case "t":
				n.Kind = xpath.TextNode
				n.Data = s.V
				if spec.TextName {
					n.Local = s.V
				}
			default:
				n.Kind = xpath.CommentNode
				n.Data = s.V
				if spec.TextName {
					n.Local = s.V
				}
			}
			parent.Children = append(parent.Children, n)
			d.add(n)
			for ai, a := range s.A {
				an := &Node{Kind: xpath.AttributeNode, Parent: n, Index: ai, Local: a[0], Data: a[1]}
				if i := strings.IndexByte(a[0], ':'); i >= 0 {
					an.Prefix, an.Local = a[0][:i], a[0][i+1:]
				}
				n.Attrs = append(n.Attrs, an)
				d.add(an)
			}
			build(n, s.C)
		}
	}
	build(d.Root, spec.C)
	for _, n := range d.Nodes {
		n.value = computeValue(n)
		if spec.ShallowValue && (n.Kind == xpath.ElementNode || n.Kind == xpath.RootNode) {
			var b strings.Builder
			for _, c := range n.Children {
				if c.Kind == xpath.TextNode {
					b.WriteString(strings.TrimSpace(c.Data))
				}
			}
			n.value = b.String()
		}
	}
	return d
}

// StringValue is what the navigator's Value() answers on n (harness-side
// observation: no step, no hook).
func (n *Node) StringValue() string { return n.value }

func (d *Doc) add(n *Node) {
	n.ID = len(d.Nodes)
	d.Nodes = append(d.Nodes, n)
}

func computeValue(n *Node) string {
	switch n.Kind {
	case xpath.TextNode, xpath.CommentNode, xpath.AttributeNode:
		return n.Data
	}
	var b strings.Builder
	var walk func(x *Node)
	walk = func(x *Node) {
		if x.Kind == xpath.TextNode {
			b.WriteString(x.Data)
		}
		for _, c := range x.Children {
			walk(c)
		}
	}
	walk(n)
	return b.String()
}

// Navigator method kinds, reported to the hook.
const (
	MNodeType = iota
	MLocalName
	MPrefix
	MValue
	MCopy
	MMoveToRoot
	MMoveToParent
	MMoveToNextAttribute
	MMoveToChild
	MMoveToFirst
	MMoveToNext
	MMoveToPrevious
	MMoveTo
	MNamespaceURL
	NumMethods
)

var MethodNames = [NumMethods]string{"NodeType", "LocalName", "Prefix", "Value", "Copy", "MoveToRoot", "MoveToParent",
	"MoveToNextAttribute", "MoveToChild", "MoveToFirst", "MoveToNext", "MoveToPrevious", "MoveTo", "NamespaceURL"}

// HookFunc is called at the start of every navigator method. It may park the
// calling goroutine and it may panic (nav-panic fault, step budget).
type HookFunc func(method int, n *Nav)

var hook atomic.Pointer[HookFunc]

// SetHook installs (or, with nil, removes) the navigator hook.
func SetHook(h HookFunc) {
	if h == nil {
		hook.Store(nil)
		return
	}
	hook.Store(&h)
}

// Nav implements xpath.NodeNavigator (and NamespaceURL) over a Doc.
type Nav struct {
	Doc   *Doc
	cur   *Node // element / text / comment / root
	attr  int   // -1, or index into cur.Attrs
	Owner int32 // task that created the original navigator (copies inherit it)
}

// NewNav returns a navigator positioned on node id of d.
func NewNav(d *Doc, id int, owner int32) *Nav {
	n := d.Nodes[id%len(d.Nodes)]
	if n.Kind == xpath.AttributeNode {
		return &Nav{Doc: d, cur: n.Parent, attr: n.Index, Owner: owner}
	}
	return &Nav{Doc: d, cur: n, attr: -1, Owner: owner}
}

func (n *Nav) node() *Node {
	if n.attr >= 0 {
		return n.cur.Attrs[n.attr]
	}
	return n.cur
}

// ID returns the document-order id of the current node without counting as a
// step (harness-side observation).
func (n *Nav) ID() int { return n.node().ID }

func (n *Nav) fire(m int) {
	if h := hook.Load(); h != nil {
		(*h)(m, n)
	}
}

func (n *Nav) NodeType() xpath.NodeType { n.fire(MNodeType); return n.node().Kind }
func (n *Nav) LocalName() string        { n.fire(MLocalName); return n.node().Local }
func (n *Nav) Prefix() string           { n.fire(MPrefix); return n.node().Prefix }
func (n *Nav) Value() string            { n.fire(MValue); return n.node().value }
func (n *Nav) NamespaceURL() string     { n.fire(MNamespaceURL); return n.node().NS }

func (n *Nav) Copy() xpath.NodeNavigator {
	n.fire(MCopy)
	c := *n
	return &c
}

func (n *Nav) MoveToRoot() {
	n.fire(MMoveToRoot)
	n.cur, n.attr = n.Doc.Root, -1
}

func (n *Nav) MoveToParent() bool {
	n.fire(MMoveToParent)
	if n.attr >= 0 {
		n.attr = -1
		return true
	}
	if n.cur.Parent == nil {
		return false
	}
	n.cur = n.cur.Parent
	return true
}

func (n *Nav) MoveToNextAttribute() bool {
	n.fire(MMoveToNextAttribute)
	if n.attr+1 >= len(n.cur.Attrs) {
		return false
	}
	n.attr++
	return true
}

func (n *Nav) MoveToChild() bool {
	n.fire(MMoveToChild)
	if n.attr >= 0 || len(n.cur.Children) == 0 {
		return false
	}
	n.cur = n.cur.Children[0]
	return true
}

func (n *Nav) MoveToFirst() bool {
	n.fire(MMoveToFirst)
	if n.attr >= 0 || n.cur.Parent == nil || n.cur.Index == 0 {
		return false
	}
	n.cur = n.cur.Parent.Children[0]
	return true
}

func (n *Nav) MoveToNext() bool {
	n.fire(MMoveToNext)
	if n.attr >= 0 || n.cur.Parent == nil || n.cur.Index+1 >= len(n.cur.Parent.Children) {
		return false
	}
	n.cur = n.cur.Parent.Children[n.cur.Index+1]
	return true
}

func (n *Nav) MoveToPrevious() bool {
	n.fire(MMoveToPrevious)
	if n.attr >= 0 || n.cur.Parent == nil || n.cur.Index == 0 {
		return false
	}
	n.cur = n.cur.Parent.Children[n.cur.Index-1]
	return true
}

func (n *Nav) MoveTo(o xpath.NodeNavigator) bool {
	n.fire(MMoveTo)
	on, ok := o.(*Nav)
	if !ok {
		return false
	}
	if on.Doc != n.Doc {
		if !LooseMoveTo.Load() {
			return false
		}
		n.Doc = on.Doc
	}
	n.cur, n.attr = on.cur, on.attr
	return true
}

// LooseMoveTo (set per run): MoveTo does not check that the other navigator is
// on the same document; it adopts the other's document and position, as a
// navigator whose MoveTo is a plain struct copy does.
var LooseMoveTo atomic.Bool

// IDer is what the harness needs from whatever navigator the engine hands back.
type IDer interface{ ID() int }

// PlainNav is a second navigator implementation over the same documents: it
// behaves exactly like Nav but does NOT implement NamespaceURL() - like a
// navigator of another library used with the same compiled expressions. A
// document marked NoNS is only ever navigated through PlainNav.
type PlainNav struct{ n *Nav }

func (p *PlainNav) ID() int                   { return p.n.ID() }
func (p *PlainNav) NodeType() xpath.NodeType  { return p.n.NodeType() }
func (p *PlainNav) LocalName() string         { return p.n.LocalName() }
func (p *PlainNav) Prefix() string            { return p.n.Prefix() }
func (p *PlainNav) Value() string             { return p.n.Value() }
func (p *PlainNav) MoveToRoot()               { p.n.MoveToRoot() }
func (p *PlainNav) MoveToParent() bool        { return p.n.MoveToParent() }
func (p *PlainNav) MoveToNextAttribute() bool { return p.n.MoveToNextAttribute() }
func (p *PlainNav) MoveToChild() bool         { return p.n.MoveToChild() }
func (p *PlainNav) MoveToFirst() bool         { return p.n.MoveToFirst() }
func (p *PlainNav) MoveToNext() bool          { return p.n.MoveToNext() }
func (p *PlainNav) MoveToPrevious() bool      { return p.n.MoveToPrevious() }
func (p *PlainNav) Copy() xpath.NodeNavigator { return &PlainNav{n: p.n.Copy().(*Nav)} }
func (p *PlainNav) MoveTo(o xpath.NodeNavigator) bool {
	op, ok := o.(*PlainNav)
	if !ok {
		p.n.fire(MMoveTo)
		return false
	}
	return p.n.MoveTo(op.n)
}

// NavFor returns the navigator type the document is navigated with.
func NavFor(d *Doc, id int, owner int32) xpath.NodeNavigator {
	n := NewNav(d, id, owner)
	if d.NoNS {
		return &PlainNav{n: n}
	}
	return n
}
