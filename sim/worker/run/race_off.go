//go:build !race

package run

const raceEnabled = false

func raceDisable() {}
func raceEnable()  {}
