package run

import (
	"fmt"
	"os"
	"regexp"
	"sort"
	"strings"
)

// RaceLog reads the race detector's report file of this very process
// (GORACE=log_path=<prefix> writes to <prefix>.<pid>, synchronously, at the
// moment a race is detected). With suppress_equal_stacks=0 and
// suppress_equal_addresses=0 every run reports its races afresh, so the
// oracle is a per-run, in-process, repeatable observation.
type RaceLog struct {
	path string
}

// OpenRaceLog returns nil when prefix is empty (plain build).
func OpenRaceLog(prefix string) *RaceLog {
	if prefix == "" {
		return nil
	}
	return &RaceLog{path: fmt.Sprintf("%s.%d", prefix, os.Getpid())}
}

// Mark returns the current size of the report file.
func (r *RaceLog) Mark() int64 {
	if r == nil {
		return 0
	}
	st, err := os.Stat(r.path)
	if err != nil {
		return 0
	}
	return st.Size()
}

// Grown reports whether anything was reported after mark (cheap: one stat).
func (r *RaceLog) Grown(mark int64) bool {
	if r == nil {
		return false
	}
	st, err := os.Stat(r.path)
	return err == nil && st.Size() > mark
}

// Since returns what was reported after mark.
func (r *RaceLog) Since(mark int64) string {
	if r == nil {
		return ""
	}
	st, err := os.Stat(r.path)
	if err != nil || st.Size() <= mark {
		return ""
	}
	f, err := os.Open(r.path)
	if err != nil {
		return ""
	}
	defer f.Close()
	// one run can flood the log (every racy access of a loop is reported, since
	// report de-duplication is off): the first megabyte tells everything
	size := st.Size() - mark
	if size > 1<<20 {
		size = 1 << 20
	}
	buf := make([]byte, size)
	n, _ := f.ReadAt(buf, mark)
	return string(buf[:n])
}

// RaceReport is one parsed "WARNING: DATA RACE" block.
type RaceReport struct {
	Access [2]string   // "Write" / "Read" / "Previous write" ...
	Stacks [2][]string // function names, innermost first
	Files  [2][]string // file:line per frame
	Raw    string
}

var frameRe = regexp.MustCompile(`^  (\S.*)\(\)$`)
var fileRe = regexp.MustCompile(`^      (\S+):(\d+) `)

// ParseRaceReports splits the detector's output into reports.
func ParseRaceReports(text string) []RaceReport {
	var out []RaceReport
	blocks := strings.Split(text, "==================")
	for _, b := range blocks {
		if !strings.Contains(b, "WARNING: DATA RACE") {
			continue
		}
		rep := RaceReport{Raw: strings.TrimSpace(b)}
		idx := -1
		lines := strings.Split(b, "\n")
		for i := 0; i < len(lines); i++ {
			l := lines[i]
			switch {
			case strings.HasPrefix(l, "Read at ") || strings.HasPrefix(l, "Write at ") ||
				strings.HasPrefix(l, "Previous read at ") || strings.HasPrefix(l, "Previous write at ") ||
				strings.HasPrefix(l, "Atomic ") || strings.HasPrefix(l, "Previous atomic "):
				idx++
				if idx < 2 {
					rep.Access[idx] = strings.TrimSpace(l[:strings.Index(l, " at ")])
				}
			case strings.HasPrefix(l, "Goroutine "):
				idx = 2 // creation stacks: ignored
			default:
				if idx >= 0 && idx < 2 {
					if m := frameRe.FindStringSubmatch(l); m != nil {
						rep.Stacks[idx] = append(rep.Stacks[idx], m[1])
						file := ""
						if i+1 < len(lines) {
							if fm := fileRe.FindStringSubmatch(lines[i+1]); fm != nil {
								file = fm[1] + ":" + fm[2]
							}
						}
						rep.Files[idx] = append(rep.Files[idx], file)
					}
				}
			}
		}
		out = append(out, rep)
	}
	return out
}

const pkgPrefix = "github.com/antchfx/xpath."

// topPkgFrame returns the innermost frame of the package under test (not the
// shim) in a stack, or "".
func topPkgFrame(stack []string) string {
	for _, f := range stack {
		if strings.HasPrefix(f, pkgPrefix) {
			return strings.TrimPrefix(f, pkgPrefix)
		}
	}
	return ""
}

// innermost non-runtime frame
func topFrame(stack []string) string {
	for _, f := range stack {
		if strings.HasPrefix(f, "runtime.") || strings.HasPrefix(f, "sync.") || strings.HasPrefix(f, "sync/atomic.") {
			continue
		}
		return f
	}
	if len(stack) > 0 {
		return stack[0]
	}
	return ""
}

// Class identifies a race by the unordered pair of innermost package frames
// (function names, so that line shifts do not matter).
func (r RaceReport) Class() (class string, inPkg bool) {
	a, b := topPkgFrame(r.Stacks[0]), topPkgFrame(r.Stacks[1])
	inPkg = a != "" || b != ""
	if a == "" {
		a = "(" + topFrame(r.Stacks[0]) + ")"
	}
	if b == "" {
		b = "(" + topFrame(r.Stacks[1]) + ")"
	}
	p := []string{a, b}
	sort.Strings(p)
	return "race:" + p[0] + "~" + p[1], inPkg
}

// HarnessRace is set when a race report has no frame of the package under
// test: the simulator itself is broken. The worker exits 2 on it.
var HarnessRace string

func (x *exec) raceViolations(text string) {
	reps := ParseRaceReports(text)
	seen := map[string]bool{}
	for _, r := range reps {
		class, inPkg := r.Class()
		if !inPkg {
			if HarnessRace == "" {
				HarnessRace = r.Raw
			}
			continue
		}
		if seen[class] {
			continue
		}
		seen[class] = true
		detail := fmt.Sprintf("%s by %s (%s) / %s by %s (%s)", r.Access[0], topPkgFrame(r.Stacks[0]), firstPkgFile(r, 0), r.Access[1], topPkgFrame(r.Stacks[1]), firstPkgFile(r, 1))
		x.viol("race", class, detail, -1)
	}
	// deterministic order
	sort.SliceStable(x.res.Viol, func(i, j int) bool {
		if x.res.Viol[i].Kind == "race" && x.res.Viol[j].Kind == "race" {
			return x.res.Viol[i].Class < x.res.Viol[j].Class
		}
		return false
	})
}

func firstPkgFile(r RaceReport, i int) string {
	for k, f := range r.Stacks[i] {
		if strings.HasPrefix(f, pkgPrefix) && k < len(r.Files[i]) {
			fl := r.Files[i][k]
			if j := strings.LastIndex(fl, "/"); j >= 0 {
				fl = fl[j+1:]
			}
			return fl
		}
	}
	return "?"
}
