package run

import (
	"time"

	"verifsim/scn"
)

// Execute runs a scenario in the mode it names.
func Execute(s *scn.Scenario, opt Options) *Result {
	if len(s.Before) > 0 {
		// earlier runs of the same process that are part of this scenario's history
		quiet := opt
		quiet.Trace = false
		for _, b := range s.Before {
			bb := *b
			bb.Before = nil
			Execute(&bb, quiet)
		}
		v := *s
		v.Before = nil
		return Execute(&v, opt)
	}
	if s.Mode == "G" {
		return RunG(s, opt)
	}
	return RunH(s, opt)
}

// HasClass reports whether the result contains a violation of the class.
func HasClass(r *Result, class string) bool {
	for _, v := range r.Viol {
		if v.Class == class {
			return true
		}
	}
	return false
}

// Shrink minimises a failing scenario by delta debugging on its explicit
// description: drop tasks, operations, faults, configuration, documents,
// document subtrees, expression sub-trees and finally preemptions, keeping a
// candidate only while a violation of the same class persists. It returns the
// smallest scenario found and the number of executions spent.
//
// A scenario with a Before list depends on state the simulator cannot reset,
// so every candidate of it is executed in a pristine child process (fresh);
// the earlier runs are minimised first.
func Shrink(s *scn.Scenario, class string, opt Options, maxExecs int, maxTime time.Duration, fresh func(*scn.Scenario) *Result, forceFresh bool) (*scn.Scenario, int) {
	opt.Trace = false
	execs := 0
	start := time.Now()
	cur := s.Clone()
	// once a violation is known to depend on state that survives between runs,
	// this (polluted) process can no longer judge any candidate
	useFresh := (len(s.Before) > 0 || forceFresh) && fresh != nil
	fails := func(c *scn.Scenario) (*Result, bool) {
		if execs >= maxExecs || time.Since(start) > maxTime {
			return nil, false
		}
		execs++
		var r *Result
		if useFresh {
			r = fresh(c)
		} else {
			r = Execute(c, opt)
			if r.Poisoned && fresh != nil {
				// this candidate left task goroutines behind: from now on judge in
				// pristine child processes only
				useFresh = true
			}
		}
		return r, r != nil && HasClass(r, class)
	}
	// the history of earlier runs first: delta debugging on the Before list
	for len(cur.Before) > 0 {
		n := len(cur.Before)
		reduced := false
		for size := (n + 1) / 2; size >= 1 && !reduced; size /= 2 {
			for lo := 0; lo < n && !reduced; lo += size {
				hi := lo + size
				if hi > n {
					hi = n
				}
				c := cur.Clone()
				c.Before = append(c.Before[:lo:lo], c.Before[hi:]...)
				if _, bad := fails(c); bad {
					cur = c
					reduced = true
				}
				if execs >= maxExecs || time.Since(start) > maxTime {
					return cur, execs
				}
			}
			if size == 1 {
				break
			}
		}
		if !reduced {
			break
		}
	}
	// try tries a candidate; mode G candidates are tried with the parent's
	// explicit schedule first and then with a few freshly drawn ones.
	explicitOnly := false
	try := func(c *scn.Scenario) bool {
		if c.Mode != "G" || explicitOnly {
			if r, bad := fails(c); bad {
				if c.Mode == "G" {
					if len(r.Sched) >= len(cur.Sched) {
						return false // not fewer scheduling segments: no progress
					}
					c.Sched = r.Sched
				}
				cur = c
				return true
			}
			return false
		}
		if r, bad := fails(c); bad {
			c.Sched = r.Sched
			cur = c
			return true
		}
		for k := uint64(1); k <= 6; k++ {
			d := c.Clone()
			d.Sched = nil
			d.SchedSeed = c.SchedSeed*6364136223846793005 + k
			if r, bad := fails(d); bad {
				d.Sched = r.Sched
				cur = d
				return true
			}
		}
		return false
	}
	if cur.Mode == "G" && len(cur.Sched) == 0 {
		if r, bad := fails(cur); bad {
			cur.Sched = r.Sched
		} else {
			return s, execs
		}
	}
	for pass := 0; pass < 6; pass++ {
		changed := false
		for stage := 0; stage < numStages; stage++ {
			explicitOnly = stage == 7
			for again := true; again; {
				again = false
				for _, mk := range candidates(cur, stage) {
					if execs >= maxExecs || time.Since(start) > maxTime {
						return cur, execs
					}
					if try(mk()) {
						changed, again = true, true
						break
					}
				}
			}
		}
		if !changed {
			break
		}
	}
	return cur, execs
}

const numStages = 8

// candidates enumerates the smaller variants of one stage lazily: a candidate
// is only materialised (cloned and edited) when it is about to be tried - a
// long explicit schedule times thousands of candidates would not fit in memory
// otherwise.
func candidates(s *scn.Scenario, stage int) []func() *scn.Scenario {
	var out []func() *scn.Scenario
	add := func(f func(c *scn.Scenario)) {
		out = append(out, func() *scn.Scenario {
			c := s.Clone()
			f(c)
			return c
		})
	}
	switch stage {
	case 0: // whole tasks
		if len(s.Tasks) > 1 {
			for i := range s.Tasks {
				i := i
				add(func(c *scn.Scenario) { c.Tasks = append(c.Tasks[:i:i], c.Tasks[i+1:]...); c.Sched = nil })
			}
		}
	case 1: // operations, in shrinking chunks
		chunks := func(n int, emit func(lo, hi int)) {
			for size := n / 2; size >= 1; size /= 2 {
				for lo := 0; lo < n; lo += size {
					hi := lo + size
					if hi > n {
						hi = n
					}
					emit(lo, hi)
				}
				if size == 1 {
					break
				}
			}
		}
		if n := len(s.Steps); n > 0 {
			chunks(n, func(lo, hi int) {
				add(func(c *scn.Scenario) { c.Steps = append(c.Steps[:lo:lo], c.Steps[hi:]...) })
			})
		}
		for ti := range s.Tasks {
			ti := ti
			if n := len(s.Tasks[ti]); n > 0 {
				chunks(n, func(lo, hi int) {
					add(func(c *scn.Scenario) { c.Tasks[ti] = append(c.Tasks[ti][:lo:lo], c.Tasks[ti][hi:]...) })
				})
			}
		}
		// the operations of the earlier runs that are part of the history
		for bi := range s.Before {
			bi := bi
			if n := len(s.Before[bi].Steps); n > 1 {
				chunks(n, func(lo, hi int) {
					add(func(c *scn.Scenario) {
						c.Before[bi].Steps = append(c.Before[bi].Steps[:lo:lo], c.Before[bi].Steps[hi:]...)
					})
				})
			}
			for ti := range s.Before[bi].Tasks {
				ti := ti
				if n := len(s.Before[bi].Tasks[ti]); n > 1 {
					chunks(n, func(lo, hi int) {
						add(func(c *scn.Scenario) {
							c.Before[bi].Tasks[ti] = append(c.Before[bi].Tasks[ti][:lo:lo], c.Before[bi].Tasks[ti][hi:]...)
						})
					})
				}
			}
		}
	case 2: // faults and configuration
		for i, st := range s.Steps {
			i := i
			if st.Crash > 0 {
				add(func(c *scn.Scenario) { c.Steps[i].Crash = 0 })
			}
			if st.Fail {
				add(func(c *scn.Scenario) { c.Steps[i].Fail = false })
			}
			if st.N > 1 {
				add(func(c *scn.Scenario) { c.Steps[i].N = 1 })
			}
			if st.Rep > 0 {
				rep := st.Rep
				add(func(c *scn.Scenario) { c.Steps[i].Rep = 0 })
				add(func(c *scn.Scenario) { c.Steps[i].Rep = rep / 2 })
				add(func(c *scn.Scenario) { c.Steps[i].Rep = rep - 1 })
			}
			if st.Src != "" && st.Src != "const" {
				add(func(c *scn.Scenario) { c.Steps[i].Src = "const" })
			}
		}
		for ti := range s.Tasks {
			for i, st := range s.Tasks[ti] {
				ti, i := ti, i
				if st.Fail {
					add(func(c *scn.Scenario) { c.Tasks[ti][i].Fail = false })
				}
				if st.Rep > 0 {
					rep := st.Rep
					add(func(c *scn.Scenario) { c.Tasks[ti][i].Rep = 0 })
					add(func(c *scn.Scenario) { c.Tasks[ti][i].Rep = rep / 2 })
					add(func(c *scn.Scenario) { c.Tasks[ti][i].Rep = rep - 1 })
				}
				if st.N > 0 {
					add(func(c *scn.Scenario) { c.Tasks[ti][i].N = 0 })
				}
				if st.Src != "" && st.Src != "const" {
					add(func(c *scn.Scenario) { c.Tasks[ti][i].Src = "const" })
				}
				if st.Op == "compile" {
					add(func(c *scn.Scenario) {
						if c.Tasks[ti][i].N == 0 {
							c.Tasks[ti][i].Op = "select"
						} else {
							c.Tasks[ti][i].Op, c.Tasks[ti][i].N = "eval", 0
						}
					})
				}
			}
		}
		if s.Cfg.CacheCap >= 0 && s.Prop != "C16" {
			add(func(c *scn.Scenario) { c.Cfg.CacheCap = -1 })
		}
		if s.Cfg.PoolMode != 0 {
			add(func(c *scn.Scenario) { c.Cfg.PoolMode = 0 })
		}
		if s.Cfg.NS {
			add(func(c *scn.Scenario) { c.Cfg.NS, c.Cfg.NSSwap, c.Cfg.NSRebind = false, false, false })
		}
		if s.Cfg.NSSwap {
			add(func(c *scn.Scenario) { c.Cfg.NSSwap = false })
		}
		if s.Cfg.NSRebind {
			add(func(c *scn.Scenario) { c.Cfg.NSRebind = false })
		}
		if s.Cfg.Must {
			add(func(c *scn.Scenario) { c.Cfg.Must = false })
		}
		if s.Cfg.Pristine {
			add(func(c *scn.Scenario) { c.Cfg.Pristine = false })
		}
		if s.Cfg.Preempts != 0 && s.Cfg.Strategy != "pct" {
			add(func(c *scn.Scenario) { c.Cfg.Preempts = 0 })
		}
		if s.Cfg.LoadSlow != 0 {
			add(func(c *scn.Scenario) { c.Cfg.LoadSlow = 0 })
		}
		if s.Mode == "G" && s.Cfg.Yields != scn.YAll {
			add(func(c *scn.Scenario) { c.Cfg.Yields = scn.YAll })
		}
	case 3: // whole documents / expressions, re-indexing the operations that refer to later ones
		eachStep := func(c *scn.Scenario, f func(st *scn.Step)) {
			for i := range c.Steps {
				f(&c.Steps[i])
			}
			for ti := range c.Tasks {
				for i := range c.Tasks[ti] {
					f(&c.Tasks[ti][i])
				}
			}
		}
		if len(s.Docs) > 1 {
			for i := range s.Docs {
				i := i
				n := len(s.Docs)
				add(func(c *scn.Scenario) {
					c.Docs = append(c.Docs[:i:i], c.Docs[i+1:]...)
					eachStep(c, func(st *scn.Step) {
						st.D %= n
						if st.D > i {
							st.D--
						} else if st.D == i {
							st.D = 0
						}
					})
				})
			}
		}
		if len(s.Exprs) > 1 {
			for i := range s.Exprs {
				i := i
				n := len(s.Exprs)
				add(func(c *scn.Scenario) {
					c.Exprs = append(c.Exprs[:i:i], c.Exprs[i+1:]...)
					eachStep(c, func(st *scn.Step) {
						st.E %= n
						if st.E > i {
							st.E--
						} else if st.E == i {
							st.E = 0
						}
					})
				})
			}
		}
	case 4: // document subtrees, attributes
		for di := range s.Docs {
			di := di
			for _, nd := range scn.ShrinkDoc(s.Docs[di]) {
				nd := nd
				add(func(c *scn.Scenario) { c.Docs[di] = nd })
			}
		}
	case 5: // expression sub-trees
		for ei := range s.Exprs {
			ei := ei
			if s.Exprs[ei].AST == nil {
				continue
			}
			for _, ne := range scn.ShrinkExpr(s.Exprs[ei].AST) {
				ne := ne
				t := ne.String()
				if t == s.Exprs[ei].Text {
					continue
				}
				// (in a poisoned process the package's locks may be held by leaked
				// goroutines: do not touch the package here, the child process that
				// judges the candidate rejects texts that do not compile)
				if !ProcessPoisoned() {
					if ex, _ := compile(t); ex == nil {
						continue
					}
				}
				add(func(c *scn.Scenario) { c.Exprs[ei].AST = ne; c.Exprs[ei].Text = t })
			}
		}
	case 6: // context nodes towards the root, handle selectors towards 0
		for i, st := range s.Steps {
			i := i
			if st.C != 0 {
				add(func(c *scn.Scenario) { c.Steps[i].C = 0 })
			}
			if st.H != 0 {
				add(func(c *scn.Scenario) { c.Steps[i].H = 0 })
			}
		}
		for ti := range s.Tasks {
			for i, st := range s.Tasks[ti] {
				ti, i := ti, i
				if st.C != 0 {
					add(func(c *scn.Scenario) { c.Tasks[ti][i].C = 0 })
				}
			}
		}
	case 7: // preemptions: merge schedule segments
		if s.Mode == "G" && len(s.Sched) >= 4 {
			n := len(s.Sched) / 2
			stepBy := 1
			if n > 600 {
				stepBy = n / 600 // very long schedules: try a sample of the segments per pass
			}
			for i := 0; i < n; i += stepBy {
				i := i
				add(func(c *scn.Scenario) {
					// give segment i's points to its predecessor (or successor)
					sc := append([]int(nil), c.Sched...)
					cnt := sc[2*i+1]
					if i > 0 {
						sc[2*i-1] += cnt
					} else if n > 1 {
						sc[2*i+3] += cnt
					}
					sc = append(sc[:2*i:2*i], sc[2*i+2:]...)
					// merge equal neighbours
					var m []int
					for k := 0; k+1 < len(sc); k += 2 {
						if l := len(m); l >= 2 && m[l-2] == sc[k] {
							m[l-1] += sc[k+1]
						} else {
							m = append(m, sc[k], sc[k+1])
						}
					}
					c.Sched = m
				})
			}
		}
	}
	return out
}

// RaceBuild tells whether this worker was built with -race.
const RaceBuild = raceEnabled

// CompileOK reports whether the engine accepts the text (used by generators).
func CompileOK(text string) bool {
	old, oldMust := useNS, useMust
	useNS, useMust = false, false
	genText.Store(&text)
	genSeq.Add(1)
	ex, _ := compile(text)
	genSeq.Add(1)
	useNS, useMust = old, oldMust
	return ex != nil
}
