//go:build race

package run

import "runtime"

const raceEnabled = true

func raceDisable() { runtime.RaceDisable() }
func raceEnable()  { runtime.RaceEnable() }
