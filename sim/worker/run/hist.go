package run

import (
	"fmt"
	"runtime"
	"strings"
	"time"

	"github.com/antchfx/xpath"
	vs "github.com/antchfx/xpath/verifsync"
	"verifsim/scn"
	"verifsimw/world"
)

// Options control one execution.
type Options struct {
	Trace   bool
	RaceLog *RaceLog // nil in the plain build
	// Pristine computes one reference outcome in a pristine child process (nil:
	// not available). Used by runs whose configuration asks for it.
	Pristine func(s *scn.Scenario, it SoloItem) (key string, ok bool)
}

// SoloItem identifies one reference evaluation.
type SoloItem struct {
	Text  string `json:"text"`
	D     int    `json:"d"`
	C     int    `json:"c"`
	API   string `json:"api"`
	Limit int    `json:"limit"`
}

// SoloInPristineProcess is what the child process runs: the scenario's
// documents and configuration, one reference evaluation, nothing else.
func SoloInPristineProcess(s *scn.Scenario, it SoloItem) string {
	x := newExec(s, Options{})
	x.sim.mode = 'H'
	sim.Store(x.sim)
	defer x.finish()
	x.installCache()
	if s.Cfg.NS && s.Cfg.NSRebind && s.Mode == "G" {
		// the run re-bound its prefixes before the references were computed
		nsMap["x"], nsMap["y"] = nsMap["y"], nsMap["x"]
	}
	return x.soloRun(it.Text, it.D, it.C, it.API, it.Limit).Key()
}

// verifyPristine re-computes the reference outcomes of this run in pristine
// child processes, one process per evaluation: "identical to the value obtained
// from a freshly compiled expression" must not depend on what this process -
// or this run - evaluated before, whatever package-level state an edit adds.
func (x *exec) verifyPristine(opt Options) {
	if opt.Pristine == nil || !x.s.Cfg.Pristine || len(x.res.Viol) > 0 {
		return
	}
	n := 0
	for _, k := range x.soloK {
		if k.outcome.Aborted() || n >= 10 {
			continue
		}
		n++
		key, ok := opt.Pristine(x.s, SoloItem{k.text, k.d, k.c, k.api, k.limit})
		if !ok {
			continue
		}
		x.res.Stats.Probes["pristine_process_references"]++
		if key != k.outcome.Key() {
			x.viol("oracle-unstable", "oracle-unstable:pristine-process",
				fmt.Sprintf("fresh Compile(%q).%s on doc %d ctx %d gives %s in this process and %s in a pristine process: the value depends on what was evaluated earlier", k.text, k.api, k.d, k.c, clip(k.outcome.Key()), clip(key)), -1)
			return
		}
	}
}

// exec is the common state of one scenario execution.
type exec struct {
	s        *scn.Scenario
	sim      *Sim
	docs     []*world.Doc
	shared   []*xpath.Expr // compiled once per scenario, used by every operation
	res      *Result
	solos    map[string]Outcome
	soloK    []soloKey
	cache    *cacheModel
	stop     bool // global state is wedged (modelled deadlock): stop executing
	raceLog  *RaceLog
	raceMark int64
	// per shared expression: operations whose result was compared with the oracle
	usedCompared map[int]int
	// C12: count(P) / reverse(P) compiled once per run and expression
	longCount, longRev map[int]*xpath.Expr
	longUses           map[int]int
	// C16: expressions of pernode steps, compiled once per run
	perNode map[string]*xpath.Expr
	// C16 goroutine runs: expressions shared by the tasks' pnode operations
	pnode []*xpath.Expr
}

type soloKey struct {
	text    string
	d, c    int
	api     string
	limit   int
	key     string
	outcome Outcome
}

func newExec(s *scn.Scenario, opt Options) *exec {
	x := &exec{s: s, res: &Result{Stats: NewStats()}, solos: map[string]Outcome{}, usedCompared: map[int]int{}}
	x.sim = &Sim{cfg: s.Cfg, st: x.res.Stats, trace: opt.Trace}
	x.sim.current.Store(-1)
	x.sim.waitTask.Store(-1)
	useNS = s.Cfg.NS
	useMust = s.Cfg.Must
	world.LooseMoveTo.Store(s.Cfg.LooseMoveTo)
	// a new bindings map per run, shared by every Compile of the run (callers do
	// share one map between goroutines); the xml prefix is deliberately not declared
	nsMap = map[string]string{"x": "urn:x", "y": "urn:y"}
	if s.Cfg.NSSwap {
		nsMap = map[string]string{"x": "urn:y", "y": "urn:x"}
	}
	for i, d := range s.Docs {
		x.docs = append(x.docs, world.Build(i, d))
		// environment variants this run really had
		if d.NoNS {
			x.res.Stats.Faults["navigator-without-NamespaceURL"]++
		}
		if d.TextName {
			x.res.Stats.Faults["navigator-names-text-nodes"]++
		}
		if d.ShallowValue {
			x.res.Stats.Faults["navigator-shallow-values"]++
		}
	}
	if s.Cfg.LooseMoveTo {
		x.res.Stats.Faults["navigator-loose-MoveTo"]++
	}
	if s.Cfg.NS {
		x.res.Stats.Faults["compile-with-namespace-bindings"]++
	}
	for _, st := range s.Steps {
		x.res.Stats.Faults["warm-up-repeats"] += st.Rep
	}
	for _, ops := range s.Tasks {
		for _, st := range ops {
			x.res.Stats.Faults["warm-up-repeats"] += st.Rep
		}
	}
	return x
}

func (x *exec) viol(kind, class, detail string, step int) {
	v := Violation{Prop: x.s.Prop, Kind: kind, Class: class, Detail: detail, Step: step}
	if cur := x.sim.who(); cur >= 0 {
		t := x.sim.tasks[cur] // on a task goroutine: task-private sink, merged by main at the end
		t.viol = append(t.viol, v)
		return
	}
	x.res.Viol = append(x.res.Viol, v)
}

func (x *exec) tracef(format string, a ...interface{}) {
	if x.sim.trace {
		x.sim.tr = append(x.sim.tr, fmt.Sprintf(format, a...))
	}
}

// begin / end bracket one simulated operation on the main goroutine.
func (x *exec) begin(budget, crashAt int) *Env {
	e := &Env{Budget: budget, CrashAt: crashAt}
	x.sim.mainEnv = e
	mainOpSeq.Add(1)
	return e
}

// runFinalizers runs, as one simulated operation of its own, the finalizers of
// the package under test that the collector has queued (see the shim).
func (x *exec) runFinalizers() {
	if vs.PendingFinalizers() == 0 {
		return
	}
	e := &Env{Budget: MinBudget * 5}
	x.sim.mainEnv = e
	mainOpSeq.Add(1)
	n := 0
	func() {
		defer func() {
			if p := recover(); p != nil {
				k, v := classifyPanic(p)
				x.tracef("a finalizer panicked: %s:%s", k, v)
			}
		}()
		n = vs.RunFinalizers()
	}()
	x.sim.mainEnv = nil
	mainOpSeq.Add(1)
	x.res.Stats.Steps += int64(e.Steps)
	x.res.Stats.Faults["finalizer-run"] += n
}

// nsRebind: the client re-binds the prefixes in the very map object it passed
// to CompileWithNS earlier (its right: the bindings are read when an expression
// is compiled). Expressions compiled before must not notice. The harness itself
// goes on compiling with a fresh map holding the original bindings.
func (x *exec) nsRebind() {
	if !x.s.Cfg.NS {
		return
	}
	old := nsMap
	nsMap = map[string]string{}
	for k, v := range old {
		nsMap[k] = v
	}
	old["x"], old["y"] = old["y"], old["x"]
	old["z"] = "urn:z"
	x.res.Stats.Faults["ns-rebind"]++
}

// forceGC is the "gc" fault: a collection here and now, and every finalizer it
// queues run before the next operation.
func (x *exec) forceGC() {
	for round := 0; round < 2; round++ {
		done := make(chan struct{})
		sentinel := new([16]byte)
		runtime.SetFinalizer(sentinel, func(*[16]byte) { close(done) })
		sentinel = nil
		runtime.GC()
		select {
		case <-done:
		case <-time.After(200 * time.Millisecond):
		}
		x.runFinalizers()
	}
	x.res.Stats.Faults["gc"]++
}

func (x *exec) end(e *Env) {
	x.sim.mainEnv = nil
	mainOpSeq.Add(1)
	defer func() {
		if x.sim.mode == 'H' && !x.stop {
			x.runFinalizers()
		}
	}()
	x.res.Stats.Steps += int64(e.Steps)
	x.res.Stats.NavCalls += int64(e.NavCalls)
	x.sim.hash = mix(x.sim.hash, e.hash, uint64(e.Steps))
	if e.Crashed {
		x.res.Stats.Faults["nav-panic"]++
	}
	// on one goroutine an operation that has ended (normally, by an error or by
	// a panic the caller recovered from) must have released every lock it took:
	// a lock still held now blocks every later call for ever
	if x.sim.mode == 'H' && !x.stop && x.sim.locks.anyHeld() {
		x.stop = true
		x.viol("deadlock", "deadlock:lock-held-after-operation", "an operation ended (possibly by a panic of the client's navigator or loader) and left a lock of the package held: every later call that needs it blocks for ever", -1)
	}
}

func (x *exec) nav(d, c int) xpath.NodeNavigator {
	doc := x.docs[d%len(x.docs)]
	return world.NavFor(doc, c, -1)
}

// soloRun computes the reference outcome: fresh Compile, fresh navigator,
// quiet system, run to completion.
func (x *exec) soloRun(text string, d, c int, api string, limit int) Outcome {
	e := x.begin(SoloBudget, 0)
	defer x.end(e)
	// the reference run gets its own copy of the namespace bindings: it must
	// not be able to influence (or be influenced by) the run through that map
	shared := nsMap
	nsMap = map[string]string{}
	for k, v := range shared {
		nsMap[k] = v
	}
	defer func() { nsMap = shared }()
	if api == "pkgselect" {
		// the deprecated package-level Select compiles by itself (never with a namespace map)
		o := pkgSelect(text, x.nav(d, c))
		o.Steps = e.Steps
		return o
	}
	ex, co := compile(text)
	if ex == nil {
		co.Steps = e.Steps
		return co
	}
	var o Outcome
	switch api {
	case "select":
		o = selectAll(ex, x.nav(d, c), limit)
	default:
		var it *xpath.NodeIterator
		o, it = evaluate(ex, x.nav(d, c))
		if it != nil {
			o = drain(it, limit)
		}
	}
	o.Steps = e.Steps
	return o
}

func (x *exec) solo(text string, d, c int, api string, limit int) Outcome {
	key := fmt.Sprintf("%s|%d|%d|%s|%d", text, d, c, api, limit)
	if o, ok := x.solos[key]; ok {
		return o
	}
	o := x.soloRun(text, d, c, api, limit)
	x.solos[key] = o
	x.soloK = append(x.soloK, soloKey{text, d, c, api, limit, key, o})
	if o.Aborted() {
		x.res.Stats.SoloDiverged++
	}
	return o
}

// recheckSolos recomputes every reference outcome at the end of the run: the
// oracle itself must not depend on the history (DESIGN §2.4).
func (x *exec) recheckSolos() {
	for _, k := range x.soloK {
		if k.outcome.Aborted() {
			continue
		}
		o := x.soloRun(k.text, k.d, k.c, k.api, k.limit)
		if o.Key() != k.outcome.Key() {
			x.viol("oracle-unstable", "oracle-unstable:"+k.api,
				fmt.Sprintf("fresh Compile(%q).%s on doc %d ctx %d gave %s early in the run and %s at its end", k.text, k.api, k.d, k.c, k.outcome.Key(), o.Key()), -1)
			return
		}
	}
}

func budgetFor(solo Outcome) int {
	b := 50 * solo.Steps
	if b < MinBudget {
		b = MinBudget
	}
	return b
}

// installCache puts the package's global state into the run's initial state:
// a new default regexp cache (or a client cache of Cfg.CacheCap), empty
// builder pools, the run's pool variant. A run is then a pure function of its
// scenario, whatever ran before it in this process.
func (x *exec) installCache() {
	xpath.VerifResetRegexpCache()
	vs.ResetPools()
	vs.DropFinalizers()
	vs.SetPoolMode(x.s.Cfg.PoolMode)
	if x.s.Cfg.CacheCap >= 0 {
		x.cache = newCacheModel(x, x.s.Cfg.CacheCap)
		x.cache.install()
	} else {
		x.cache = newCacheModel(x, -1)
	}
}

func (x *exec) finish() {
	sim.Store(nil)
	x.res.LogHash = x.sim.hash
	x.res.Trace = x.sim.tr
	x.res.Stats.Runs = 1
}

// handle is a live iterator of a history.
type handle struct {
	it      *xpath.NodeIterator
	e, d, c int
	api     string
	want    Outcome // reference sequence
	pos     int     // nodes reported so far
	done    bool    // MoveNext has returned false
	dead    bool    // ended by a fault or a panic
}

// RunH executes a mode H scenario.
func RunH(s *scn.Scenario, opt Options) *Result {
	x := newExec(s, opt)
	x.sim.mode = 'H'
	sim.Store(x.sim)
	defer x.finish()
	x.installCache()
	mark := opt.RaceLog.Mark()

	for _, es := range s.Exprs {
		e := x.begin(SoloBudget, 0)
		ex, _ := compile(es.Text)
		x.end(e)
		x.shared = append(x.shared, ex)
	}
	switch s.Prop {
	case "C04":
		x.histC04()
	case "C12":
		x.histC12()
	case "C16":
		x.histC16()
	default:
		panic("RunH: unknown property " + s.Prop)
	}
	if !x.stop {
		x.recheckSolos()
		x.verifyPristine(opt)
	}
	if rep := opt.RaceLog.Since(mark); rep != "" {
		x.raceViolations(rep)
	}
	return x.res
}

// compareOutcome checks an observed outcome against the reference. An
// operation hit by an injected fault is exempt (only that operation).
func (x *exec) compareOutcome(step int, api, text string, got, want Outcome, faulted bool) {
	what := api + "(" + text + ")"
	x.res.Stats.Ops++
	if want.Aborted() {
		return // the reference itself did not finish within the solo budget: no oracle
	}
	if faulted && got.Aborted() {
		return
	}
	x.res.Stats.OpsCompared++
	x.usedCompared[int(scn.HashString(text)&0x7fffffff)]++
	if got.Key() == want.Key() {
		return
	}
	kind := "divergence"
	if got.Aborted() {
		kind = "no-progress"
		if strings.Contains(got.Key(), "deadlock") {
			kind = "deadlock"
			x.stop = true
		}
	}
	x.viol(kind, kind+":"+api, fmt.Sprintf("%s: got %s, a fresh compile run alone gives %s", what, clip(got.Key()), clip(want.Key())), step)
}

func clip(s string) string {
	if len(s) > 300 {
		return s[:300] + "…"
	}
	return s
}

// ---------------------------------------------------------------------------
// C04

func (x *exec) histC04() {
	s := x.s
	var hs []*handle
	live := func() []*handle {
		var l []*handle
		for _, h := range hs {
			if !h.dead && !h.done {
				l = append(l, h)
			}
		}
		return l
	}
	interleaved := 0
	for _, xs := range scn.Expand(s.Steps) {
		i, st := xs.I, xs.St
		if x.stop || len(x.res.Viol) > 0 && s.Steps[i].Rep > 0 {
			break
		}
		if s.Steps[i].Rep > 0 && x.res.Stats.Steps > 4*RepStepCap {
			continue // warm-up repeats cut short
		}
		ei := st.E % len(s.Exprs)
		ex := x.shared[ei]
		text := s.Exprs[ei].Text
		d := st.D % len(x.docs)
		switch st.Op {
		case "select", "eval":
			if ex == nil {
				continue
			}
			want := x.solo(text, d, st.C, st.Op, 0)
			crash := 0
			if st.Crash > 0 {
				crash = st.Crash
			}
			if len(live()) > 0 {
				interleaved++
			}
			if st.Op == "select" {
				h := &handle{it: selectIter(ex, x.nav(d, st.C)), e: ei, d: d, c: st.C, api: "select", want: want}
				if h.it == nil {
					// Select itself panicked: compare that outcome, open no handle
					x.compareOutcome(i, "Select", text, selectAll(ex, x.nav(d, st.C), 0), want, false)
					continue
				}
				hs = append(hs, h)
				x.tracef("step %d select e%d d%d c%d", i, ei, d, st.C)
				if crash > 0 {
					x.advance(i, h, st.N, crash)
				}
				continue
			}
			e := x.begin(budgetFor(want), crash)
			got, it := evaluate(ex, x.nav(d, st.C))
			x.end(e)
			x.tracef("step %d eval e%d d%d c%d -> %s", i, ei, d, st.C, clip(got.Key()))
			if it != nil {
				h := &handle{it: it, e: ei, d: d, c: st.C, api: "eval", want: want}
				if want.Kind != "nodes" && !want.Aborted() {
					x.compareOutcome(i, "Evaluate", text, got, want, e.Crashed)
					continue
				}
				hs = append(hs, h)
				continue
			}
			x.compareOutcome(i, "Evaluate", text, got, want, e.Crashed)
		case "next":
			// any iterator the caller still holds, drained ones included: a drained
			// iterator polled again must stay drained and must not disturb the others
			var l []*handle
			for _, h := range hs {
				if !h.dead && (!h.done || st.H%3 == 0) {
					l = append(l, h)
				}
			}
			if len(l) == 0 {
				continue
			}
			h := l[st.H%len(l)]
			n := st.N
			if n <= 0 {
				n = 1
			}
			if h.done {
				x.pollDrained(i, h)
				continue
			}
			x.advance(i, h, n, st.Crash)
		case "abandon":
			l := live()
			if len(l) == 0 {
				continue
			}
			h := l[st.H%len(l)]
			h.dead = true
			x.res.Stats.Faults["abandon"]++
			x.tracef("step %d abandon handle(e%d) at %d/%d", i, h.e, h.pos, len(h.want.IDs))
		case "probe":
			if ex == nil {
				continue
			}
			x.probe(i, ei, d, st.C)
		case "str":
			// the other things a caller does with a compiled expression between two
			// evaluations: print it; run the same text through the deprecated
			// package-level helpers. Events of the history; the package-level
			// Select is compared with the fresh-compile reference like any other use.
			if ex == nil {
				continue
			}
			e := x.begin(MinBudget, 0)
			func() {
				defer func() { recover() }()
				_ = ex.String()
			}()
			x.end(e)
			if st.N%2 == 1 && !useNS {
				want := x.solo(text, d, st.C, "pkgselect", 0)
				e := x.begin(budgetFor(want), 0)
				got := pkgSelect(text, x.nav(d, st.C))
				x.end(e)
				x.compareOutcome(i, "Select(package)", text, got, want, false)
			}
			x.res.Stats.Faults["other-api-use"]++
		case "swapcache":
			x.cache = newCacheModel(x, st.N)
			x.cache.install()
			x.res.Stats.Faults["cache-swap"]++
		case "nsrebind":
			x.nsRebind()
		case "gc":
			// iterators the caller abandoned are unreachable from now on
			for _, h := range hs {
				if h.dead {
					h.it = nil
				}
			}
			x.forceGC()
		}
	}
	if x.stop {
		return
	}
	// final probe of every expression the history touched
	seen := map[string]bool{}
	for i, st := range s.Steps {
		ei := st.E % len(s.Exprs)
		d := st.D % len(x.docs)
		k := fmt.Sprintf("%d|%d|%d", ei, d, st.C)
		if seen[k] || x.shared[ei] == nil || len(seen) >= 12 {
			continue
		}
		seen[k] = true
		x.probe(len(s.Steps)+i, ei, d, st.C)
	}
	if interleaved > 0 {
		x.res.Stats.Probes["interleaved_handles"] += interleaved
		x.res.Stats.Faults["interleave"] += interleaved
	}
	// non-trivial: some shared expression was really used at least twice with
	// the oracle applied (the property is about re-use)
	for _, n := range x.usedCompared {
		if n >= 2 {
			x.res.Nontrivial = true
		}
	}
}

// pollDrained: one more MoveNext on an iterator that already returned false.
// What the drained iterator itself answers is not C04's business (C12 checks
// that for node-set expressions); here the extra poll is one more event of the
// history, and every other evaluation must stay unaffected by it.
func (x *exec) pollDrained(step int, h *handle) {
	e := x.begin(budgetFor(h.want), 0)
	ok, id, tail := moveNext(h.it)
	x.end(e)
	x.res.Stats.Ops++
	x.res.Stats.Faults["extra-movenext"]++
	x.tracef("step %d extra MoveNext on drained handle(e%d,%s) -> %v %d %s", step, h.e, h.api, ok, id, tail)
	if ok || tail != "" {
		h.dead = true
	}
}

// advance performs n MoveNext calls on h, checking each against the reference.
func (x *exec) advance(step int, h *handle, n, crash int) {
	text := x.s.Exprs[h.e].Text
	for k := 0; k < n && !h.dead && !h.done; k++ {
		e := x.begin(budgetFor(h.want), crash)
		ok, id, tail := moveNext(h.it)
		x.end(e)
		crash = 0
		x.res.Stats.Ops++
		x.tracef("step %d next handle(e%d,%s) -> %v %d %s", step, h.e, h.api, ok, id, tail)
		if h.want.Aborted() || h.want.Kind != "nodes" {
			// no reference sequence (the solo run itself exceeded its budget): the
			// handle is only kept moving; a panic or abort ends it
			if !ok && tail == "" {
				h.done = true
			} else if !ok {
				h.dead = true
			}
			if h.want.Kind != "nodes" && !h.want.Aborted() && h.api == "select" {
				// Select on a non node-set expression: still must be repeatable
				x.checkStep(step, h, ok, id, tail, text)
			}
			continue
		}
		if e.Crashed && strings.HasPrefix(tail, "abort:") {
			h.dead = true
			continue
		}
		x.checkStep(step, h, ok, id, tail, text)
	}
}

// checkStep compares one MoveNext result with position h.pos of the reference.
func (x *exec) checkStep(step int, h *handle, ok bool, id int, tail, text string) {
	x.res.Stats.OpsCompared++
	if h.pos == 0 {
		x.usedCompared[int(scn.HashString(text)&0x7fffffff)]++
	}
	what := fmt.Sprintf("%s(%s) iterator, MoveNext #%d", h.api, text, h.pos+1)
	var want string
	if h.pos < len(h.want.IDs) {
		want = fmt.Sprintf("node %d", h.want.IDs[h.pos])
	} else if h.want.Tail == "" {
		want = "false"
	} else {
		want = "panic " + h.want.Tail
	}
	var got string
	switch {
	case ok:
		got = fmt.Sprintf("node %d", id)
		h.pos++
	case tail == "":
		got = "false"
		h.done = true
	default:
		got = "panic " + tail
		h.dead = true
	}
	if got != want {
		kind := "divergence"
		if strings.HasPrefix(tail, "abort:") {
			kind = "no-progress"
			if strings.Contains(tail, "deadlock") {
				kind = "deadlock"
				x.stop = true
			}
		}
		h.dead = true
		x.viol(kind, kind+":"+h.api+"-iter", fmt.Sprintf("%s: got %s, a fresh compile run alone gives %s (full reference %s)", what, got, want, clip(h.want.Key())), step)
	}
}

// probe is the property's statement, literally: Select and Evaluate on the
// shared expression now == on a fresh Compile.
func (x *exec) probe(step, ei, d, c int) {
	text := x.s.Exprs[ei].Text
	ex := x.shared[ei]
	wantS := x.solo(text, d, c, "select", 0)
	e := x.begin(budgetFor(wantS), 0)
	got := selectAll(ex, x.nav(d, c), 0)
	x.end(e)
	x.compareOutcome(step, "Select", text, got, wantS, false)
	if x.stop {
		return
	}
	wantE := x.solo(text, d, c, "eval", 0)
	e = x.begin(budgetFor(wantE), 0)
	got, it := evaluate(ex, x.nav(d, c))
	if it != nil {
		got = drain(it, 0)
	}
	x.end(e)
	x.compareOutcome(step, "Evaluate", text, got, wantE, false)
	x.tracef("step %d probe e%d d%d c%d", step, ei, d, c)
}
