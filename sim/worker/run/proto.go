package run

import (
	"fmt"
	"strings"

	"github.com/antchfx/xpath"
	"verifsim/scn"
	"verifsimw/world"
)

// histC12 runs an iterator-protocol history: every handle is checked, call by
// call, against a list-cursor reference model whose sequence is the solo
// Select result; the pure relations of the statement (order for the flat
// fragment, Evaluate == Select, count(), reverse()) are checked as invariants
// on the same runs ("rel" steps).
func (x *exec) histC12() {
	s := x.s
	var hs []*handle
	live := func() []*handle {
		var l []*handle
		for _, h := range hs {
			if !h.dead {
				l = append(l, h)
			}
		}
		return l
	}
	for _, xs := range scn.Expand(s.Steps) {
		i, st := xs.I, xs.St
		if x.stop || len(x.res.Viol) > 0 {
			break
		}
		if s.Steps[i].Rep > 0 && x.res.Stats.Steps > 4*RepStepCap {
			continue // warm-up repeats cut short
		}
		ei := st.E % len(s.Exprs)
		ex := x.shared[ei]
		text := s.Exprs[ei].Text
		d := st.D % len(x.docs)
		switch st.Op {
		case "select", "eval":
			if ex == nil {
				continue
			}
			want := x.solo(text, d, st.C, "select", 0)
			if want.Aborted() {
				continue
			}
			if len(live()) > 0 {
				x.res.Stats.Faults["interleave"]++
			}
			if st.Op == "select" {
				if it := selectIter(ex, x.nav(d, st.C)); it != nil {
					hs = append(hs, &handle{it: it, e: ei, d: d, c: st.C, api: "select", want: want})
				}
				x.tracef("step %d select e%d d%d c%d", i, ei, d, st.C)
				continue
			}
			e := x.begin(budgetFor(want), 0)
			got, it := evaluate(ex, x.nav(d, st.C))
			x.end(e)
			x.res.Stats.Ops++
			x.tracef("step %d eval e%d d%d c%d -> %s", i, ei, d, st.C, got.Kind)
			if it == nil {
				// the solo Select may legitimately be a sequence while Evaluate is a
				// scalar only for expressions that are not node-set valued
				if s.Exprs[ei].NS && want.Tail == "" && got.Kind != "perr" && got.Kind != "prt" {
					x.viol("relation", "relation:evaluate-type", fmt.Sprintf("Evaluate(%s) returned %s, not an iterator, for a node-set expression", text, clip(got.Key())), i)
				}
				continue
			}
			hs = append(hs, &handle{it: it, e: ei, d: d, c: st.C, api: "eval", want: want})
		case "next":
			l := live()
			if len(l) == 0 {
				continue
			}
			h := l[st.H%len(l)]
			n := st.N
			if n <= 0 {
				n = 1
			}
			for k := 0; k < n && !h.dead; k++ {
				x.protoNext(i, h)
			}
		case "current":
			l := live()
			if len(l) == 0 {
				continue
			}
			h := l[st.H%len(l)]
			if h.pos == 0 && !h.done {
				x.protoNext(i, h)
			}
			x.protoCurrent(i, h)
		case "wander":
			l := live()
			if len(l) == 0 {
				continue
			}
			h := l[st.H%len(l)]
			if h.pos == 0 && !h.done {
				x.protoNext(i, h)
			}
			x.protoWander(i, h, st.N, uint64(st.C))
		case "extra":
			l := live()
			if len(l) == 0 {
				continue
			}
			h := l[st.H%len(l)]
			for !h.done && !h.dead {
				x.protoNext(i, h)
			}
			for k := 0; k < st.N && !h.dead; k++ {
				x.protoNext(i, h)
			}
			x.res.Stats.Faults["extra-movenext"] += st.N
		case "abandon":
			l := live()
			if len(l) == 0 {
				continue
			}
			l[st.H%len(l)].dead = true
			x.res.Stats.Faults["abandon"]++
		case "rel":
			if ex == nil {
				continue
			}
			x.relations(i, ei, d, st.C)
		case "nsrebind":
			x.nsRebind()
		case "gc":
			for _, h := range hs {
				if h.dead {
					h.it = nil
				}
			}
			x.forceGC()
		}
	}
	// non-trivial: the run exercised the protocol on a sequence of two or more
	// nodes, or checked the relations on one
	x.res.Nontrivial = x.res.Stats.Probes["relations_on_2plus_nodes"] > 0 || x.res.Stats.Probes["handle_advanced_on_2plus"] > 0
}

// protoNext: one MoveNext against the cursor model.
func (x *exec) protoNext(step int, h *handle) {
	text := x.s.Exprs[h.e].Text
	wasDone := h.done
	e := x.begin(budgetFor(h.want), 0)
	ok, id, tail := moveNext(h.it)
	x.end(e)
	x.res.Stats.Ops++
	x.res.Stats.OpsCompared++
	x.tracef("step %d next handle(e%d,%s) -> %v %d %s", step, h.e, h.api, ok, id, tail)
	if wasDone {
		x.res.Stats.Probes["movenext_after_false"]++
		if ok || tail != "" {
			h.dead = true
			got := fmt.Sprintf("node %d", id)
			if !ok {
				got = "panic " + tail
			}
			x.viol("protocol", "protocol:sticky-false", fmt.Sprintf("%s(%s): MoveNext returned false and a later MoveNext gave %s", h.api, text, got), step)
		}
		return
	}
	if len(h.want.IDs) >= 2 && h.pos == 1 {
		x.res.Stats.Probes["handle_advanced_on_2plus"]++
	}
	x.checkStep(step, h, ok, id, tail, text)
	if len(x.res.Viol) > 0 {
		last := &x.res.Viol[len(x.res.Viol)-1]
		if last.Kind == "divergence" {
			last.Kind, last.Class = "protocol", "protocol:sequence:"+h.api
		}
	}
}

// protoCurrent: Current is positioned on the node just reported, and asking
// twice changes nothing.
func (x *exec) protoCurrent(step int, h *handle) {
	if h.dead || h.pos > len(h.want.IDs) {
		return // already reported / ended
	}
	if h.pos == 0 || h.done {
		// unspecified by the statement: only must not panic
		func() {
			defer func() {
				if p := recover(); p != nil {
					k, v := classifyPanic(p)
					x.viol("protocol", "protocol:current-panics", fmt.Sprintf("Current() panicked: %s:%s", k, v), step)
				}
			}()
			_ = h.it.Current()
		}()
		return
	}
	a, ok1 := h.it.Current().(world.IDer)
	b, ok2 := h.it.Current().(world.IDer)
	x.res.Stats.OpsCompared++
	want := h.want.IDs[h.pos-1]
	if !ok1 || !ok2 || a.ID() != want || b.ID() != want {
		ga, gb := -1, -1
		if ok1 {
			ga = a.ID()
		}
		if ok2 {
			gb = b.ID()
		}
		x.viol("protocol", "protocol:current", fmt.Sprintf("%s(%s): after reporting node %d, Current() is on node %d (then %d)", h.api, x.s.Exprs[h.e].Text, want, ga, gb), step)
	}
}

// protoWander: the caller walks a copy of Current around the document; the
// iterator must not notice.
func (x *exec) protoWander(step int, h *handle, n int, seed uint64) {
	if h.dead || h.pos == 0 || h.done {
		return
	}
	cur := h.it.Current()
	if _, ok := cur.(world.IDer); !ok {
		return
	}
	c := cur.Copy()
	r := scn.NewRng(seed, uint64(n))
	for k := 0; k < n; k++ {
		switch r.Intn(6) {
		case 0:
			c.MoveToParent()
		case 1:
			c.MoveToChild()
		case 2:
			c.MoveToNext()
		case 3:
			c.MoveToRoot()
		case 4:
			c.MoveToPrevious()
		case 5:
			c.MoveToNextAttribute()
		}
	}
	x.res.Stats.Faults["wander"]++
	x.protoCurrent(step, h)
}

func reversed(a []int) []int {
	out := make([]int, len(a))
	for i, v := range a {
		out[len(a)-1-i] = v
	}
	return out
}

// relations checks, for one (expression, document, context): Evaluate yields
// the Select sequence; count() equals its length; reverse() reverses it; the
// flat fragment is in document order without repeats.
func (x *exec) relations(step, ei, d, c int) {
	es := x.s.Exprs[ei]
	text := es.Text
	sel := x.solo(text, d, c, "select", 0)
	if sel.Aborted() || sel.Kind != "nodes" {
		return // no sequence at all (Select itself panicked): nothing for C12 to relate
	}
	x.res.Stats.Ops++
	x.res.Stats.OpsCompared++
	x.res.Stats.Probes["relations_checked"]++
	if len(sel.IDs) >= 2 {
		x.res.Stats.Probes["relations_on_2plus_nodes"]++
	}
	if es.Flat && sel.Tail == "" {
		for i := 1; i < len(sel.IDs); i++ {
			if sel.IDs[i] <= sel.IDs[i-1] {
				what := "out of document order"
				class := "order:disorder"
				if sel.IDs[i] == sel.IDs[i-1] || contains(sel.IDs[:i], sel.IDs[i]) {
					what, class = "repeated", "order:duplicate"
				}
				x.viol("order", class, fmt.Sprintf("flat path %s from doc %d ctx %d yields %v: node %d is %s", text, d, c, sel.IDs, sel.IDs[i], what), step)
				return
			}
		}
		if len(sel.IDs) >= 2 {
			x.res.Stats.Probes["flat_order_checked_2plus"]++
		}
		// "yields ITS nodes": against the reference model of the fragment
		var bind map[string]string
		if x.s.Cfg.NS {
			bind = nsMap
		}
		if want, ok, _ := flatDenotation(es.AST, x.docs[d%len(x.docs)], c, bind); ok {
			x.res.Stats.Probes["flat_denotation_checked"]++
			if len(want) >= 2 {
				x.res.Stats.Probes["flat_denotation_checked_2plus"]++
			}
			if fmt.Sprint(want) != fmt.Sprint(sel.IDs) {
				x.viol("order", "order:not-its-nodes", fmt.Sprintf("flat path %s from doc %d ctx %d yields %v; the path denotes %v", text, d, c, sel.IDs, want), step)
				return
			}
		} else if es.AST != nil {
			x.res.Stats.Probes["flat_denotation_declined"]++
		}
	}
	// Evaluate returns an iterator producing the same sequence as Select
	ev := x.solo(text, d, c, "eval", 0)
	if !ev.Aborted() && ev.Key() != sel.Key() {
		if !(ev.Kind != "nodes" && !es.NS) {
			x.viol("relation", "relation:evaluate-select", fmt.Sprintf("%s on doc %d ctx %d: Select gives %s, Evaluate gives %s", text, d, c, clip(sel.Key()), clip(ev.Key())), step)
			return
		}
	}
	if sel.Tail != "" {
		return // iteration ends in a (deterministic) panic: the relations below are about complete sequences
	}
	cnt := x.solo("count("+text+")", d, c, "eval", 0)
	if !cnt.Aborted() && cnt.Kind != "cerr" {
		want := valueOutcome(float64(len(sel.IDs)))
		if cnt.Key() != want.Key() {
			x.viol("relation", "relation:count", fmt.Sprintf("count(%s) on doc %d ctx %d = %s, Select yields %d nodes %v", text, d, c, clip(cnt.Key()), len(sel.IDs), sel.IDs), step)
			return
		}
	}
	rev := x.solo("reverse("+text+")", d, c, "select", 0)
	if !rev.Aborted() && rev.Kind != "cerr" {
		want := Outcome{Kind: "nodes", IDs: reversed(sel.IDs)}
		if rev.Key() != want.Key() {
			x.viol("relation", "relation:reverse", fmt.Sprintf("reverse(%s) on doc %d ctx %d yields %s, Select yields %s", text, d, c, clip(rev.Key()), clip(sel.Key())), step)
			return
		}
	}
	// count() and reverse() through long-lived compiled expressions as well: the
	// relations hold "for every history", not only for freshly compiled ones
	if x.longCount == nil {
		x.longCount, x.longRev = map[int]*xpath.Expr{}, map[int]*xpath.Expr{}
	}
	if _, ok := x.longCount[ei]; !ok {
		x.longCount[ei], _ = compile("count(" + text + ")")
		x.longRev[ei], _ = compile("reverse(" + text + ")")
	}
	if ex := x.longCount[ei]; ex != nil {
		e := x.begin(budgetFor(sel), 0)
		got, it := evaluate(ex, x.nav(d, c))
		if it != nil {
			got = drain(it, 0)
		}
		x.end(e)
		if want := valueOutcome(float64(len(sel.IDs))); !got.Aborted() && got.Key() != want.Key() {
			x.viol("relation", "relation:count", fmt.Sprintf("count(%s) on doc %d ctx %d, through an expression compiled once and used %d times before, = %s; Select yields %d nodes", text, d, c, x.longUses[ei], clip(got.Key()), len(sel.IDs)), step)
			return
		}
	}
	if ex := x.longRev[ei]; ex != nil {
		e := x.begin(budgetFor(sel), 0)
		got := selectAll(ex, x.nav(d, c), 0)
		x.end(e)
		if want := (Outcome{Kind: "nodes", IDs: reversed(sel.IDs)}); !got.Aborted() && got.Key() != want.Key() {
			x.viol("relation", "relation:reverse", fmt.Sprintf("reverse(%s) on doc %d ctx %d, through an expression compiled once and used %d times before, yields %s; Select yields %s", text, d, c, x.longUses[ei], clip(got.Key()), clip(sel.Key())), step)
			return
		}
	}
	if x.longUses == nil {
		x.longUses = map[int]int{}
	}
	x.longUses[ei]++
	// the same through a long-lived compiled expression (history clause)
	if ex := x.shared[ei]; ex != nil {
		e := x.begin(budgetFor(sel), 0)
		got := selectAll(ex, x.nav(d, c), 0)
		x.end(e)
		if got.Key() != sel.Key() {
			x.viol("protocol", "protocol:sequence:select", fmt.Sprintf("Select(%s) on the long-lived expression gives %s, fresh gives %s", text, clip(got.Key()), clip(sel.Key())), step)
		}
	}
	_ = strings.TrimSpace
	_ = xpath.RootNode
}

func contains(a []int, v int) bool {
	for _, x := range a {
		if x == v {
			return true
		}
	}
	return false
}
