package run

import (
	"errors"
	"fmt"
	"regexp"
	"strings"

	"github.com/antchfx/xpath"
	"verifsim/scn"
	"verifsimw/world"
)

var errInjected = errors.New("verifsim: injected load failure")

// cacheHandle hides the unexported cache type behind closures.
type cacheHandle struct {
	get     func(k interface{}) (interface{}, error)
	stats   func() (n, capacity, resets int)
	entries func() (keys, vals []interface{})
	install func()
}

func clientCache(load func(interface{}) (interface{}, error), capacity int) cacheHandle {
	c := xpath.NewLoadingCache(load, capacity)
	return cacheHandle{
		get:     func(k interface{}) (interface{}, error) { return xpath.VerifCacheGet(c, k) },
		stats:   func() (int, int, int) { return xpath.VerifCacheStats(c) },
		entries: func() ([]interface{}, []interface{}) { return xpath.VerifCacheEntries(c) },
		install: func() { xpath.RegexpCache = c },
	}
}

func currentCache() cacheHandle {
	c := xpath.RegexpCache
	return cacheHandle{
		get:     func(k interface{}) (interface{}, error) { return xpath.VerifCacheGet(c, k) },
		stats:   func() (int, int, int) { return xpath.VerifCacheStats(c) },
		entries: func() ([]interface{}, []interface{}) { return xpath.VerifCacheEntries(c) },
		install: func() { xpath.RegexpCache = c },
	}
}

// cacheModel is the reference side of the cache simulation: what has been
// requested and loaded, against which the invariants I1-I6 of DESIGN §5.4 are
// checked. It deliberately does not model the eviction policy.
type cacheModel struct {
	x        *exec
	capacity int // -1: the package's default cache (loader not ours)
	h        cacheHandle
	okLoads  map[uint64]int // key hash -> completed successful loads
	badLoads map[uint64]int // key hash -> failed loads
	asked    map[uint64]bool
	maxSeen  int
	resets   int
	// I7 (weak): patterns that went through the engine while this client cache
	// was installed; its loader must have been asked at least once by then
	engineUses map[uint64]bool
}

func newCacheModel(x *exec, capacity int) *cacheModel {
	m := &cacheModel{x: x, capacity: capacity, okLoads: map[uint64]int{}, badLoads: map[uint64]int{}, asked: map[uint64]bool{}}
	if capacity < 0 {
		m.h = currentCache()
		return m
	}
	m.h = clientCache(m.load, capacity)
	x.res.Stats.Faults["tiny-cap"]++
	return m
}

func (m *cacheModel) install() { m.h.install() }

// load is the harness loader of a client cache. It runs inside the cache's
// unlocked window, so its events are where the scheduler interleaves tasks.
func (m *cacheModel) load(key interface{}) (interface{}, error) {
	s := sim.Load()
	ks, _ := key.(string)
	kh := scn.HashString(ks)
	var e *Env
	if s != nil {
		if cur := s.who(); cur >= 0 {
			e = s.tasks[cur].env
		} else {
			e = s.mainEnv
		}
		s.onEvent(evLoadIn, kh, nil)
		for i := 0; i < s.cfg.LoadSlow; i++ {
			s.onEvent(evLoadMid, kh, nil)
		}
	}
	if e != nil && e.PanicLoad {
		e.PanicLoad = false
		e.LoadPanicked = true
		if s != nil {
			if s.mode == 'H' || s.who() < 0 {
				m.badLoads[kh]++
			}
			s.onEvent(evLoadErr, kh, nil)
		}
		panic(errInjected) // a client loader built on MustCompile, say
	}
	if e != nil && e.FailLoad {
		e.FailLoad = false
		e.LoadFailed = true
		if s != nil {
			if s.mode == 'H' || s.who() < 0 {
				m.badLoads[kh]++
			}
			s.onEvent(evLoadErr, kh, nil) // in mode G the scheduler counts it
		}
		return nil, errInjected
	}
	re, err := regexp.Compile(ks)
	if err != nil {
		if s != nil {
			if s.mode == 'H' || s.who() < 0 {
				m.badLoads[kh]++
			}
			s.onEvent(evLoadErr, kh, nil)
		}
		return nil, err
	}
	if s != nil {
		if s.mode == 'H' || s.who() < 0 {
			m.okLoads[kh]++
		}
		s.onEvent(evLoadOK, kh, nil) // in mode G the scheduler counts it
	}
	return re, nil
}

func (m *cacheModel) loaderUsed(string) {}

// engineUse records a valid pattern that reached the cache through the engine
// (matches / replace / Compile) and checks the weak invariant I7: a client who
// installs a cache may expect the engine to consult THAT cache. Not demanded
// for every pattern (a memo in front of the cache is legitimate), but after
// three distinct new patterns the installed cache's loader must have been
// called at least once. Only patterns the engine learns at evaluation time
// count: what it does with a constant pattern (compile it once when the
// expression is built, say) is its own business.
func (m *cacheModel) engineUse(step int, pattern string, constant bool) {
	if m.capacity < 0 || m.x.sim.mode != 'H' || constant {
		return
	}
	if m.engineUses == nil {
		m.engineUses = map[uint64]bool{}
	}
	m.engineUses[scn.HashString(pattern)] = true
	if len(m.engineUses) >= 3 && len(m.okLoads) == 0 && len(m.badLoads) == 0 {
		m.x.viol("cache-bypassed", "cache-bypassed", fmt.Sprintf("a client cache is installed as RegexpCache and %d distinct patterns have gone through matches()/replace()/Compile, all of them only known at evaluation time, yet its loader was never asked: the engine does not consult the installed cache", len(m.engineUses)), step)
	}
}

// check verifies the state invariants; it is called after every step of a
// history and at every scheduling point of a goroutine run.
func (m *cacheModel) check(step int) {
	x := m.x
	n, capacity, resets := m.h.stats()
	if n > m.maxSeen {
		m.maxSeen = n
	}
	if resets > m.resets {
		x.res.Stats.Probes["cache_resets"] += resets - m.resets
		m.resets = resets
	}
	if capacity > 0 && n == capacity {
		x.res.Stats.Probes["cache_at_exact_cap"]++
	}
	if capacity > 0 && n > capacity {
		x.viol("cache-bound", "cache-bound", fmt.Sprintf("cache holds %d entries, capacity is %d", n, capacity), step)
	}
	keys, vals := m.h.entries()
	for i, k := range keys {
		ks, ok := k.(string)
		re, ok2 := vals[i].(*regexp.Regexp)
		if !ok || !ok2 || re == nil {
			x.viol("cache-exact", "cache-exact:entry-type", fmt.Sprintf("cache entry %v -> %T is not a compiled pattern keyed by its text", k, vals[i]), step)
			continue
		}
		if re.String() != ks {
			x.viol("cache-exact", "cache-exact:entry", fmt.Sprintf("cache entry for %q holds the compilation of %q", ks, re.String()), step)
		}
		// "does not remember failed loads": an entry for a key whose loads have
		// all failed. (An entry for a key the loader was never asked for is not
		// forbidden by the statement - a cache may pre-warm itself - as long as it
		// is the exact compilation, which the test above checks.)
		if kh := scn.HashString(ks); m.capacity >= 0 && m.okLoads[kh] == 0 && m.badLoads[kh] > 0 {
			x.viol("cache-stored-unloaded", "cache-stored-unloaded", fmt.Sprintf("cache holds an entry for %q although every load of it failed", ks), step)
		}
	}
}

// opGet performs one get and checks its postconditions (I1, I3).
func (m *cacheModel) opGet(step int, e *Env, key string, fail, panicLoad bool) string {
	x := m.x
	e.FailLoad = fail && m.capacity >= 0
	e.PanicLoad = panicLoad && m.capacity >= 0
	v, err, ab := guardedGet(m.h.get, key)
	m.loaderUsed(key)
	if e.LoadPanicked {
		// the caller recovers from its own loader's panic; the cache must stay usable
		e.PanicLoad, e.LoadPanicked, e.FailLoad, e.LoadFailed = false, false, false, false
		x.countFault("load-panic")
		return "loader-panicked"
	}
	e.PanicLoad = false
	if ab != "" && strings.Contains(ab, "race-cutoff") {
		return "cut-off"
	}
	if ab != "" {
		kind := "no-progress"
		if strings.Contains(ab, "deadlock") {
			kind = "deadlock"
			x.stop = x.sim.who() < 0
		}
		x.viol(kind, kind+":get", fmt.Sprintf("get(%q): %s", key, ab), step)
		return "abort"
	}
	injected := e.LoadFailed
	e.FailLoad, e.LoadFailed = false, false
	_, cerr := regexp.Compile(key)
	if injected {
		x.countFault("load-error")
		if err == nil {
			x.viol("cache-error", "cache-error:swallowed", fmt.Sprintf("get(%q): the loader failed but get returned a value", key), step)
		}
		return "failed"
	}
	if err != nil {
		if cerr == nil && x.sim.mode == 'G' && errors.Is(err, errInjected) {
			// concurrent mode only: this get did not inject a failure itself but came
			// back with the harness's injected error - it shared the failing load of
			// an overlapping get of the same key (a single-flight cache may do that;
			// it is not "remembering": sequential histories stay strict, and a
			// remembered failure would also show there and in the stored entries)
			x.countFault("shared-injected-failure")
			return "failed-shared"
		}
		if cerr == nil {
			x.viol("cache-error", "cache-error:spurious", fmt.Sprintf("get(%q) failed with %v although the pattern loads fine (a failed load was remembered?)", key, err), step)
		}
		return "error"
	}
	re, ok := v.(*regexp.Regexp)
	if cerr != nil {
		x.viol("cache-exact", "cache-exact:bad-pattern", fmt.Sprintf("get(%q) returned a value for a pattern that does not compile", key), step)
		return "value"
	}
	if !ok || re == nil || re.String() != key {
		x.viol("cache-exact", "cache-exact:get", fmt.Sprintf("get(%q) returned %v", key, v), step)
	}
	return "value"
}

// guardedGet calls get and turns a panic into a description.
func guardedGet(get func(interface{}) (interface{}, error), key string) (v interface{}, err error, panicked string) {
	defer func() {
		if p := recover(); p != nil {
			k, d := classifyPanic(p)
			panicked = k + ":" + d
		}
	}()
	v, err = get(key)
	return
}

func (x *exec) countFault(k string) {
	s := x.sim
	if cur := s.who(); cur >= 0 {
		s.tasks[cur].stats.Faults[k]++
		return
	}
	x.res.Stats.Faults[k]++
}

// expandRepl rewrites $n to ${n}: "replace(s, p, r) equals ReplaceAllString
// with $n read as group n". Written from the statement.
func expandRepl(r string) string {
	var b strings.Builder
	for i := 0; i < len(r); i++ {
		if r[i] == '$' && i+1 < len(r) && r[i+1] >= '0' && r[i+1] <= '9' {
			j := i + 1
			for j < len(r) && r[j] >= '0' && r[j] <= '9' {
				j++
			}
			b.WriteString("${" + r[i+1:j] + "}")
			i = j - 1
			continue
		}
		b.WriteByte(r[i])
	}
	return b.String()
}

// replInDomain: every $<digits> of r names one of the pattern's groups.
func replInDomain(r string, groups int) bool {
	for i := 0; i < len(r); i++ {
		if r[i] != '$' {
			continue
		}
		j := i + 1
		n := 0
		for j < len(r) && r[j] >= '0' && r[j] <= '9' {
			n = n*10 + int(r[j]-'0')
			j++
		}
		if j == i+1 {
			return false // a bare $ is not generated; be conservative
		}
		if n < 1 || n > groups {
			return false
		}
	}
	return true
}

// q writes an XPath 1.0 string literal (no escapes exist: the delimiter is the
// quote character the text does not contain).
func q(s string) string {
	if strings.Contains(s, "'") {
		return "\"" + s + "\""
	}
	return "'" + s + "'"
}

// quotable: an XPath 1.0 literal cannot hold both quote characters.
func quotable(ss ...string) bool {
	for _, s := range ss {
		if strings.Contains(s, "'") && strings.Contains(s, "\"") {
			return false
		}
	}
	return true
}

// regexDoc is the little document regex operations read their operands from.
func regexDoc(subject, pattern string) *world.Doc {
	sN := &scn.NodeSpec{K: "e", N: "s"}
	if subject != "" {
		sN.C = []*scn.NodeSpec{{K: "t", V: subject}}
	}
	pN := &scn.NodeSpec{K: "e", N: "p"}
	if pattern != "" {
		pN.C = []*scn.NodeSpec{{K: "t", V: pattern}}
	}
	return world.Build(0, scn.DocSpec{C: []*scn.NodeSpec{{K: "e", N: "r", C: []*scn.NodeSpec{sN, pN}}}})
}

// BadPatternContexts: places in an expression where matches() with a constant
// pattern can stand ("a constant pattern that does not compile is rejected by
// Compile" - wherever it stands). P is replaced by the quoted pattern.
var BadPatternContexts = []string{
	"matches(., P)",
	"//a[matches(., P)]",
	"//a[matches(., P)]//b",
	"//a[matches(., P)]/b",
	"//a//b[matches(@k, P)]",
	"matches(., P) and true()",
	"true() or matches(., P)",
	"false() and matches(., P)",
	"matches(., P) = true()",
	"'x' != matches(., P)",
	"not(matches(., P))",
	"boolean(matches(., P))",
	"count(//a[matches(@k, P)])",
	"string(matches(., P))",
	"//a[matches(., P)] | //b",
	"//b | //a[matches(., P)]",
	"(//a[matches(., P)])[1]",
	"//a[b[matches(., P)]]",
	"matches(., (P))",
	"concat(string(matches(., P)), 'x')",
	"//a[@k = 'x' and matches(., P)]",
	"//a[1][matches(., P)]",
	"//a[matches(., P)][1]",
	"matches(//a, P)",
	"//a[not(matches(., P))]/@k",
	"1 + matches(., P)",
	"-matches(., P)",
	"//a[matches(., P) or @k]",
}

// opRegex performs matches()/replace()/compilebad through Compile+Evaluate
// and compares with Go's regexp used directly.
func (m *cacheModel) opRegex(step int, st scn.Step, owner int32) string {
	x := m.x
	st.K, st.S, st.R = scn.Raw(st.K), scn.Raw(st.S), scn.Raw(st.R)
	if !quotable(st.K, st.S, st.R) || (st.Src == "concat" && !quotable(st.K[:len(st.K)/2], st.K[len(st.K)/2:])) {
		return "unquotable"
	}
	_, cerr := regexp.Compile(st.K)
	var pat string
	constant := false
	switch st.Src {
	case "concat":
		h := len(st.K) / 2
		pat = "concat(" + q(st.K[:h]) + ", " + q(st.K[h:]) + ")"
	case "docpat":
		pat = "string(//p)"
	default:
		pat = q(st.K)
		constant = true
	}
	subj := q(st.S)
	if st.Src == "nodeset" {
		subj = "//s"
	}
	if st.Src == "emptyset" {
		subj = "//nothing" // an empty node-set: its string value is ""
	}
	var text string
	switch st.Op {
	case "matches":
		text = "matches(" + subj + ", " + pat + ")"
	case "replace":
		text = "replace(" + subj + ", " + pat + ", " + q(st.R) + ")"
	case "compilebad":
		text = strings.ReplaceAll(BadPatternContexts[st.N%len(BadPatternContexts)], "P", q(st.K))
		constant = true
	}
	ex, co := compile(text)
	if constant && cerr != nil && st.Op != "replace" {
		// I4: a constant pattern that does not compile is rejected by Compile -
		// with an error value, not with a panic
		if ex == nil && co.Kind != "cerr" && !co.Aborted() {
			x.viol("regex-precheck", "regex-precheck:panic", fmt.Sprintf("Compile(%q) panicked (%s) instead of returning an error for a constant pattern Go's regexp rejects", text, clip(co.Key())), step)
			return "panicked"
		}
		if ex != nil {
			x.viol("regex-precheck", "regex-precheck", fmt.Sprintf("Compile(%q) accepted a constant pattern Go's regexp rejects (%v)", text, cerr), step)
		}
		return "rejected"
	}
	if ex == nil && cerr != nil && co.Kind == "cerr" {
		// an invalid pattern refused at Compile time although the statement does
		// not demand it there (replace(), a pattern Compile could fold): stricter
		// than required, never wrong
		return "rejected-early"
	}
	if ex == nil {
		if co.Aborted() && strings.Contains(co.Key(), "race-cutoff") {
			return "cut-off"
		}
		if co.Aborted() {
			x.viol("no-progress", "no-progress:compile", fmt.Sprintf("Compile(%q): %s", text, co.Key()), step)
			return "abort"
		}
		if x.sim.mode == 'G' && strings.Contains(co.V, errInjected.Error()) {
			x.countFault("shared-injected-failure")
			return "failed-shared" // shared the failing load of an overlapping operation (see opGet)
		}
		x.viol("regex-compile", "regex-compile", fmt.Sprintf("Compile(%q) failed: %s", text, co.V), step)
		return "cerr"
	}
	doc := regexDoc(st.S, st.K)
	got, it := evaluate(ex, world.NewNav(doc, 0, owner))
	if it != nil {
		got = drain(it, 0)
	}
	if got.Aborted() && strings.Contains(got.Key(), "race-cutoff") {
		return "cut-off"
	}
	if got.Aborted() {
		kind := "no-progress"
		if strings.Contains(got.V, "deadlock") {
			kind = "deadlock"
			x.stop = true
		}
		x.viol(kind, kind+":regex", fmt.Sprintf("Evaluate(%q): %s", text, got.Key()), step)
		return "abort"
	}
	if x.sim.mode == 'G' && (got.Kind == "perr") && strings.Contains(got.V, errInjected.Error()) {
		x.countFault("shared-injected-failure")
		return "failed-shared"
	}
	if cerr != nil {
		// pattern invalid and only known at run time (or replace): the statement
		// promises nothing about the result; it must not be cached, which check() sees
		return "invalid"
	}
	re := regexp.MustCompile(st.K)
	m.engineUse(step, st.K, constant)
	if st.Op == "replace" && !replInDomain(st.R, re.NumSubexp()) {
		// a $n naming a group the pattern does not have: executed (it is legal
		// history for later calls) but not judged
		return "unjudged:" + got.Key()
	}
	subject := st.S
	if st.Src == "emptyset" {
		if st.Op == "matches" {
			return "unjudged" // matches(empty node-set, p) answers "" by design (DESIGN 5.4)
		}
		subject = ""
	}
	var want Outcome
	if st.Op == "matches" {
		want = valueOutcome(re.MatchString(subject))
	} else {
		want = valueOutcome(re.ReplaceAllString(subject, expandRepl(st.R)))
	}
	if got.Key() != want.Key() {
		x.viol("regex-result", "regex-result:"+st.Op, fmt.Sprintf("Evaluate(%q) = %s, Go regexp gives %s", text, clip(got.Key()), clip(want.Key())), step)
	}
	return got.Key()
}

// opMatchNodes evaluates a predicate whose pattern is computed from each
// candidate node (its name) and compares the selected nodes with Go's regexp
// applied node by node.
func (m *cacheModel) opMatchNodes(step int, st scn.Step) string {
	x := m.x
	if len(x.docs) == 0 {
		return "no-doc"
	}
	var text string
	var pat func(name string) string
	if st.N >= 3 {
		return m.opMatchSelf(step, st)
	}
	switch st.N % 3 {
	case 0:
		text, pat = "//*[matches(@k, local-name())]", func(n string) string { return n }
	case 1:
		text, pat = "//*[matches(@k, concat('^', name(), '$'))]", func(n string) string { return "^" + n + "$" }
	default:
		text, pat = "//*[matches(@k, concat(name(), '+'))]", func(n string) string { return n + "+" }
	}
	ex, co := compile(text)
	if ex == nil {
		x.viol("regex-compile", "regex-compile", fmt.Sprintf("Compile(%q) failed: %s", text, co.Key()), step)
		return "cerr"
	}
	doc := x.docs[0]
	got := selectAll(ex, world.NewNav(doc, 0, -1), 0)
	want := Outcome{Kind: "nodes", IDs: []int{}}
	for _, n := range doc.Nodes {
		if n.Kind != xpath.ElementNode {
			continue
		}
		var k *world.Node
		for _, a := range n.Attrs {
			if a.Local == "k" && a.Prefix == "" {
				k = a
			}
		}
		if k == nil {
			continue // matches(empty node-set, p) is not true
		}
		name := n.Local
		if n.Prefix != "" {
			name = n.Prefix + ":" + n.Local
		}
		p := pat(name)
		if st.N%3 == 0 {
			p = pat(n.Local)
		}
		re, err := regexp.Compile(p)
		if err != nil {
			return "invalid-name-pattern"
		}
		if re.MatchString(k.Data) {
			want.IDs = append(want.IDs, n.ID)
		}
	}
	if got.Key() != want.Key() {
		x.viol("regex-result", "regex-result:matches-per-node", fmt.Sprintf("Select(%q) = %s, Go regexp applied node by node gives %s", text, clip(got.Key()), clip(want.Key())), step)
	}
	return got.Key()
}

// opPerNode: ONE compiled expression is evaluated from one element of the
// document after the other, as a caller that compiled "matches(@k, ...)" once
// and applies it to every record does; the operands (subject attribute,
// subject string value, pattern attribute) differ from node to node. Each
// answer is compared with Go's regexp applied to that node's operands.
func (m *cacheModel) opPerNode(step int, st scn.Step) string {
	x := m.x
	if len(x.docs) == 0 || !quotable(st.K, st.R) {
		return "unjudged"
	}
	var text string
	// subjects whose query keeps state between evaluations unless it is cloned per call
	subjExpr := []string{"(*)[1]", "ancestor::*[1]/@k", "following-sibling::*[1]", "*[last()]", "(.//text())[1]", "preceding-sibling::*[1]/@k", "../*[2]"}[(st.C>>1)%7]
	switch st.N % 7 {
	case 5:
		text = "matches(" + subjExpr + ", " + q(st.K) + ")"
	case 6:
		text = "replace(" + subjExpr + ", " + q(st.K) + ", " + q(st.R) + ")"
	case 0:
		text = "matches(@k, " + q(st.K) + ")"
	case 1:
		text = "matches(., " + q(st.K) + ")"
	case 2:
		text = "replace(@k, string(@p), " + q(st.R) + ")"
	case 3:
		text = "replace(., " + q(st.K) + ", " + q(st.R) + ")"
	default:
		text = "matches(@k, string(@p))" // (a node-set where the pattern belongs is refused by the engine: outside the statement)
	}
	constRe, cerr := regexp.Compile(st.K)
	// compiled once per run and text: repeated pernode steps (warm-up) go on
	// using the same compiled expression, as a long-lived caller does
	if x.perNode == nil {
		x.perNode = map[string]*xpath.Expr{}
	}
	ex, co := x.perNode[text], Outcome{}
	if ex == nil {
		ex, co = compile(text)
		if ex != nil {
			x.perNode[text] = ex
		}
	}
	v := st.N % 7
	if ex == nil {
		if cerr != nil && v != 2 && v != 4 && co.Kind == "cerr" {
			// a bad constant pattern refused by Compile: demanded for matches() (I4 is
			// judged by the compilebad / matches steps), allowed for replace()
			return "rejected"
		}
		if cerr != nil && (v == 0 || v == 1 || v == 5) {
			x.viol("regex-precheck", "regex-precheck:panic", fmt.Sprintf("Compile(%q) panicked (%s) instead of returning an error for a constant pattern Go's regexp rejects", text, clip(co.Key())), step)
			return "panicked"
		}
		x.viol("regex-compile", "regex-compile", fmt.Sprintf("Compile(%q) failed: %s", text, co.Key()), step)
		return "cerr"
	}
	doc := x.docs[0]
	var els []*world.Node
	for _, n := range doc.Nodes {
		if n.Kind == xpath.ElementNode {
			els = append(els, n)
		}
	}
	if st.C%2 == 1 {
		for i, j := 0, len(els)-1; i < j; i, j = i+1, j-1 {
			els[i], els[j] = els[j], els[i]
		}
	}
	attr := func(n *world.Node, local string) *world.Node {
		for _, a := range n.Attrs {
			if a.Local == local && a.Prefix == "" {
				return a
			}
		}
		return nil
	}
	judged := 0
	for _, n := range els {
		got, it := evaluate(ex, world.NewNav(doc, n.ID, -1))
		if it != nil {
			got = drain(it, 0)
		}
		if got.Aborted() {
			kind := "no-progress"
			if strings.Contains(got.V, "deadlock") {
				kind = "deadlock"
				x.stop = true
			}
			x.viol(kind, kind+":regex", fmt.Sprintf("Evaluate(%q) from node %d: %s", text, n.ID, got.Key()), step)
			return "abort"
		}
		if x.sim.mode == 'H' && x.sim.locks.anyHeld() {
			// this evaluation ended (by a panic the caller recovered from) with a lock of
			// the package still held: the next one would block for ever. Same verdict
			// as at the end of an operation; do not touch the package again.
			x.stop = true
			x.viol("deadlock", "deadlock:lock-held-after-operation", fmt.Sprintf("Evaluate(%q) from node %d ended (%s) and left a lock of the package held: every later call that needs it blocks for ever", text, n.ID, clip(got.Key())), step)
			return "lock-held"
		}
		// this node's operands
		re, rerr := constRe, cerr
		subject := n.StringValue()
		if v == 5 || v == 6 {
			// the subject as a freshly compiled expression sees it from this node
			outer := x.sim.mainEnv
			has := x.soloRun("boolean("+subjExpr+")", 0, n.ID, "eval", 0)
			sv := x.soloRun("string("+subjExpr+")", 0, n.ID, "eval", 0)
			x.sim.mainEnv = outer
			if has.Key() != valueOutcome(true).Key() || sv.Kind != "str" {
				continue // empty node-set subject (or no value): executed, not judged
			}
			subject = sv.V
		}
		if v == 0 || v == 2 || v == 4 {
			k := attr(n, "k")
			if k == nil {
				continue // an empty node-set as subject: executed, not judged (DESIGN 5.4)
			}
			subject = k.Data
		}
		if v == 2 || v == 4 {
			p := attr(n, "p")
			if p == nil {
				continue
			}
			re, rerr = regexp.Compile(p.Data)
			if rerr == nil {
				m.engineUse(step, p.Data, false)
			}
		} else if rerr == nil {
			m.engineUse(step, st.K, true)
		}
		if rerr != nil {
			continue // a pattern only known at run time that does not compile: nothing promised
		}
		var want Outcome
		if v == 2 || v == 3 || v == 6 {
			if !replInDomain(st.R, re.NumSubexp()) {
				continue
			}
			want = valueOutcome(re.ReplaceAllString(subject, expandRepl(st.R)))
		} else {
			want = valueOutcome(re.MatchString(subject))
		}
		judged++
		if got.Key() != want.Key() {
			x.viol("regex-result", "regex-result:per-node", fmt.Sprintf("Evaluate(%q) from node %d (subject %q, pattern %q) = %s, Go regexp gives %s", text, n.ID, subject, re.String(), clip(got.Key()), clip(want.Key())), step)
			return "mismatch"
		}
	}
	x.res.Stats.Probes["pernode_judged"] += judged
	return fmt.Sprintf("judged %d of %d", judged, len(els))
}

// PNodeTexts: expressions compiled once per goroutine run and shared by the
// tasks; their pattern is only known at evaluation time (an attribute of the
// context node), so one call site sees different patterns from different
// goroutines at once.
var PNodeTexts = []string{"matches(@k, string(@p))", "replace(@k, string(@p), '<$1>')"}

// opPNode: one task applies a shared expression to one element.
func (m *cacheModel) opPNode(step int, st scn.Step, owner int32) string {
	x := m.x
	if len(x.docs) == 0 || len(x.pnode) == 0 {
		return "no-doc"
	}
	which := st.C % len(x.pnode)
	ex := x.pnode[which]
	if ex == nil {
		return "cerr"
	}
	doc := x.docs[0]
	var els []*world.Node
	for _, n := range doc.Nodes {
		if n.Kind == xpath.ElementNode && n.Parent != nil && n.Parent.Kind == xpath.ElementNode {
			els = append(els, n)
		}
	}
	if len(els) == 0 {
		return "no-rows"
	}
	n := els[st.N%len(els)]
	var k, p *world.Node
	for _, a := range n.Attrs {
		if a.Prefix == "" && a.Local == "k" {
			k = a
		}
		if a.Prefix == "" && a.Local == "p" {
			p = a
		}
	}
	got, it := evaluate(ex, world.NewNav(doc, n.ID, owner))
	if it != nil {
		got = drain(it, 0)
	}
	if k == nil || p == nil {
		return "unjudged"
	}
	subject := k.Data
	re, err := regexp.Compile(p.Data)
	if err != nil {
		return "invalid" // a pattern only known at run time that does not compile: nothing promised
	}
	if got.Aborted() {
		if strings.Contains(got.Key(), "race-cutoff") {
			return "cut-off"
		}
		kind := "no-progress"
		if strings.Contains(got.V, "deadlock") {
			kind = "deadlock"
			x.stop = true
		}
		x.viol(kind, kind+":regex", fmt.Sprintf("Evaluate(%q) from node %d: %s", PNodeTexts[which], n.ID, got.Key()), step)
		return "abort"
	}
	if got.Kind == "perr" && strings.Contains(got.V, errInjected.Error()) {
		x.countFault("shared-injected-failure")
		return "failed-shared"
	}
	var want Outcome
	if which == 0 {
		want = valueOutcome(re.MatchString(subject))
	} else {
		if !replInDomain("<$1>", re.NumSubexp()) {
			return "unjudged:" + got.Key()
		}
		want = valueOutcome(re.ReplaceAllString(subject, expandRepl("<$1>")))
	}
	if got.Key() != want.Key() {
		x.viol("regex-result", "regex-result:per-node", fmt.Sprintf("a shared Evaluate(%q) from node %d (subject %q, pattern %q) = %s, Go regexp gives %s", PNodeTexts[which], n.ID, subject, p.Data, clip(got.Key()), clip(want.Key())), step)
		return "mismatch"
	}
	return got.Key()
}

// opNoise evaluates an expression that uses the builder pool and / or ends in
// one of the package's own panics half-way. Its result is not judged: it is
// history for the regex operations that follow.
func (m *cacheModel) opNoise(st scn.Step) string {
	texts := []string{
		"concat('ab', //s > 1)", // panics after 'ab' was written when //s is not a number
		"concat(//s, 'x', //p = 1)",
		"normalize-space(//s)",
		"concat('a', 'b', 'c')",
		"concat(normalize-space(//s), 1 mod 0)",
		"string-join(//s, concat('-', //p > 0))",
	}
	ex, co := compile(texts[st.N%len(texts)])
	if ex == nil {
		return co.Key()
	}
	got, it := evaluate(ex, world.NewNav(regexDoc(st.S, "zz"), 0, -1))
	if it != nil {
		got = drain(it, 0)
	}
	return got.Key()
}

// opNumPat compiles matches() / replace() with a numeric constant where the
// pattern belongs. What Compile answers is not judged (the statement speaks of
// patterns); the cache invariants checked after the step are: whatever got
// stored is a pattern text mapped to its own compilation.
func (m *cacheModel) opNumPat(st scn.Step) string {
	texts := []string{"matches('a0', 0)", "matches(., 12)", "replace('a1', 1, 'x')"}
	ex, co := compile(texts[st.N%len(texts)])
	if ex == nil {
		return co.Key()
	}
	got, it := evaluate(ex, world.NewNav(regexDoc("a0", "0"), 0, -1))
	if it != nil {
		got = drain(it, 0)
	}
	return got.Key()
}

// opMatchSelf: the subject is a self step with a name test, evaluated on every
// element: //*[matches(self::NAME, P)] selects exactly the elements called NAME
// whose string value P matches (for the others the subject is the empty
// node-set). Patterns that match the empty string are not judged: the engine
// answers "" (a string) for an empty node-set subject, deliberately outside
// this check (DESIGN 5.4).
func (m *cacheModel) opMatchSelf(step int, st scn.Step) string {
	x := m.x
	re, err := regexp.Compile(st.K)
	if err != nil || re.MatchString("") || !quotable(st.K) || len(x.docs) == 0 {
		return "unjudged"
	}
	doc := x.docs[0]
	name := "a"
	for _, n := range doc.Nodes {
		if n.Kind == xpath.ElementNode && n.Parent != nil && n.Parent.Kind == xpath.ElementNode {
			name = n.Local
			if st.N == 4 {
				break
			}
		}
	}
	text := "//*[matches(self::" + name + ", " + q(st.K) + ")]"
	ex, co := compile(text)
	if ex == nil {
		x.viol("regex-compile", "regex-compile", fmt.Sprintf("Compile(%q) failed: %s", text, co.Key()), step)
		return "cerr"
	}
	got := selectAll(ex, world.NewNav(doc, 0, -1), 0)
	want := Outcome{Kind: "nodes", IDs: []int{}}
	for _, n := range doc.Nodes {
		if n.Kind == xpath.ElementNode && n.Local == name && n.Prefix == "" {
			v := world.NewNav(doc, n.ID, -1).Value()
			if re.MatchString(v) {
				want.IDs = append(want.IDs, n.ID)
			}
		}
	}
	if got.Key() != want.Key() {
		x.viol("regex-result", "regex-result:matches-self-subject", fmt.Sprintf("Select(%q) = %s, Go regexp applied node by node gives %s", text, clip(got.Key()), clip(want.Key())), step)
	}
	return got.Key()
}

// histC16 runs a sequential key history.
func (x *exec) histC16() {
	keysSeen := map[string]bool{}
	for _, xs := range scn.Expand(x.s.Steps) {
		i, st := xs.I, xs.St
		if x.stop {
			return
		}
		if x.s.Steps[i].Rep > 0 && x.res.Stats.Steps > 4*RepStepCap {
			continue // warm-up repeats cut short
		}
		m := x.cache
		e := x.begin(MinBudget*5, 0)
		switch st.Op {
		case "get":
			r := m.opGet(i, e, st.K, st.Fail, st.Panic)
			x.tracef("step %d get %q fail=%v panic=%v -> %s", i, st.K, st.Fail, st.Panic, r)
			keysSeen[st.K] = true
		case "noise":
			r := m.opNoise(st)
			x.tracef("step %d noise %d -> %s", i, st.N, clip(r))
		case "numpat":
			r := m.opNumPat(st)
			x.tracef("step %d numeric pattern %d -> %s", i, st.N, clip(r))
		case "matchnodes":
			r := m.opMatchNodes(i, st)
			x.tracef("step %d matchnodes variant %d -> %s", i, st.N, r)
		case "pernode":
			r := m.opPerNode(i, st)
			x.tracef("step %d pernode variant %d p=%q r=%q -> %s", i, st.N, st.K, st.R, r)
		case "matches", "replace", "compilebad":
			r := m.opRegex(i, st, -1)
			x.tracef("step %d %s s=%q p=%q r=%q src=%s -> %s", i, st.Op, st.S, st.K, st.R, st.Src, r)
			keysSeen[st.K] = true
		case "swapcache":
			x.end(e)
			x.cache = newCacheModel(x, st.N)
			x.cache.install()
			x.res.Stats.Faults["cache-swap"]++
			x.tracef("step %d swapcache cap=%d", i, st.N)
			continue
		}
		x.end(e)
		x.res.Stats.Ops++
		x.res.Stats.OpsCompared++
		if x.stop {
			return // a lock was left held: do not touch the cache again
		}
		// invariants after every step, outside any simulated operation
		x.cache.check(i)
		if len(x.res.Viol) > 0 {
			return
		}
	}
	x.res.Nontrivial = len(keysSeen) >= 2 && len(x.s.Steps) >= 3
}
