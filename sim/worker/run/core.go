// Package run executes scenarios against the (instrumented) package under
// test: histories on one goroutine (mode H) and goroutine programs under the
// seeded scheduler (mode G), with the oracles of DESIGN.md §2.4.
package run

import (
	"fmt"
	"math"
	"runtime"
	"sort"
	"strconv"
	"strings"
	"sync/atomic"

	"github.com/antchfx/xpath"
	vs "github.com/antchfx/xpath/verifsync"
	"verifsim/scn"
	"verifsimw/world"
)

// Abort is the sentinel raised by the simulator inside the code under test:
// an injected navigator failure, an exhausted step budget, or a modelled
// deadlock. It implements error so that Compile's recover turns it into an
// error value that can still be recognised.
type Abort struct{ Why string }

func (a *Abort) Error() string { return "verifsim abort: " + a.Why }

// Outcome is the observable result of one API call (or of draining one
// iterator), in a canonical comparable form.
type Outcome struct {
	Kind  string // bool num str nil other nodes cerr perr prt abort
	V     string
	IDs   []int
	Tail  string // nodes: how the iteration ended if not by MoveNext()==false ("perr:..", "prt:..", "abort:..", "cap")
	Steps int    // logical steps consumed (not part of the comparison)
}

// Key is the canonical comparison form.
func (o Outcome) Key() string {
	var b strings.Builder
	b.WriteString(o.Kind)
	b.WriteByte(':')
	b.WriteString(o.V)
	if o.Kind == "nodes" {
		b.WriteByte('[')
		for i, id := range o.IDs {
			if i > 0 {
				b.WriteByte(' ')
			}
			b.WriteString(strconv.Itoa(id))
		}
		b.WriteByte(']')
		if o.Tail != "" {
			b.WriteString("!" + o.Tail)
		}
	}
	return b.String()
}

func (o Outcome) Aborted() bool {
	return o.Kind == "abort" || strings.HasPrefix(o.Tail, "abort:")
}

// Env accounts one operation in progress.
type Env struct {
	Steps    int
	NavCalls int
	Budget   int
	CrashAt  int // >0: this navigator call panics
	Crashed  bool
	// load-error fault: the next loader call of this operation fails
	FailLoad   bool
	LoadFailed bool
	// load-panic fault: the next loader call of this operation panics
	PanicLoad    bool
	LoadPanicked bool
	CutOff       bool // wound up early because the race oracle had already fired
	hash         uint64
}

const (
	SoloBudget = 8000
	MinBudget  = 20000
)

// Stats are the reach counters reported in evidence.
type Stats struct {
	Runs         int            `json:"runs"`
	Steps        int64          `json:"steps"` // logical time
	NavCalls     int64          `json:"nav_calls"`
	Ops          int64          `json:"ops"`
	OpsCompared  int64          `json:"ops_compared"`
	SoloDiverged int64          `json:"solo_diverged"`
	Yields       map[string]int `json:"yields,omitempty"` // by kind
	Faults       map[string]int `json:"faults"`           // fired, by kind
	Probes       map[string]int `json:"probes"`
	Points       int64          `json:"sched_points,omitempty"`
	Switches     int64          `json:"switches,omitempty"`
	Preempts     int64          `json:"preemptions,omitempty"`
	Funcs        map[string]int `json:"functions_entered,omitempty"` // package function -> entries inside simulated operations
}

func NewStats() *Stats {
	return &Stats{Yields: map[string]int{}, Faults: map[string]int{}, Probes: map[string]int{}, Funcs: map[string]int{}}
}

func (s *Stats) Add(o *Stats) {
	s.Runs += o.Runs
	s.Steps += o.Steps
	s.NavCalls += o.NavCalls
	s.Ops += o.Ops
	s.OpsCompared += o.OpsCompared
	s.SoloDiverged += o.SoloDiverged
	s.Points += o.Points
	s.Switches += o.Switches
	s.Preempts += o.Preempts
	for k, v := range o.Yields {
		s.Yields[k] += v
	}
	for k, v := range o.Faults {
		s.Faults[k] += v
	}
	for k, v := range o.Probes {
		s.Probes[k] += v
	}
	for k, v := range o.Funcs {
		s.Funcs[k] += v
	}
}

// Violation is one oracle failure.
type Violation struct {
	Prop   string `json:"prop"`
	Kind   string `json:"kind"`   // divergence oracle-unstable no-progress deadlock race protocol order relation cache-* regex-* stray-panic
	Class  string `json:"class"`  // stable identification of what failed (used for minimisation and known findings)
	Detail string `json:"detail"` // human readable
	Step   int    `json:"step"`
}

// Result is what executing one scenario produced.
type Result struct {
	Viol       []Violation
	Stats      *Stats
	LogHash    uint64
	SchedHash  uint64
	Nontrivial bool
	Sched      []int // explicit schedule taken (RLE pairs task,count) in mode G
	Trace      []string
	Diverged   bool // replayed schedule did not fit
	// Poisoned: the run ended with task goroutines still alive (deadlock
	// verdict). This process must not execute another run: a leaked goroutine
	// that is woken later would call into the next run's simulator.
	Poisoned bool
}

// ---------------------------------------------------------------------------
// the global simulator state and the two hooks

type lockReq struct {
	lock  int
	write bool
}

type lockState struct {
	writer  int32 // task id or -1
	readers map[int32]int
}

type lockModel struct {
	ids   map[uintptr]int
	state []*lockState
}

func (m *lockModel) id(p uintptr) int {
	if m.ids == nil {
		m.ids = map[uintptr]int{}
	}
	if i, ok := m.ids[p]; ok {
		return i
	}
	i := len(m.state)
	m.ids[p] = i
	m.state = append(m.state, &lockState{writer: -1, readers: map[int32]int{}})
	return i
}

// canAcquire reports whether task t could take the lock now without blocking.
func (m *lockModel) canAcquire(r lockReq, t int32) bool {
	s := m.state[r.lock]
	if s.writer >= 0 {
		return false
	}
	if r.write {
		return len(s.readers) == 0
	}
	return true
}

func (m *lockModel) acquire(r lockReq, t int32) {
	s := m.state[r.lock]
	if r.write {
		s.writer = t
	} else {
		s.readers[t]++
	}
}

func (m *lockModel) release(lock int, write bool, t int32) {
	s := m.state[lock]
	if write {
		s.writer = -1
		return
	}
	// a read lock may be released by a different task than took it only in
	// broken code; release any one reader then
	if s.readers[t] > 0 {
		s.readers[t]--
		if s.readers[t] == 0 {
			delete(s.readers, t)
		}
		return
	}
	ks := sortedKeys(s.readers)
	if len(ks) > 0 {
		s.readers[ks[0]]--
		if s.readers[ks[0]] == 0 {
			delete(s.readers, ks[0])
		}
	}
}

// anyHeld reports whether some modelled lock is held (read or write).
func (m *lockModel) anyHeld() bool {
	for _, s := range m.state {
		if s.writer != -1 || len(s.readers) > 0 {
			return true
		}
	}
	return false
}

func (m *lockModel) anyWriter() bool {
	for _, s := range m.state {
		if s.writer >= 0 {
			return true
		}
	}
	return false
}

func sortedKeys(m map[int32]int) []int32 {
	var ks []int32
	for k := range m {
		ks = append(ks, k)
	}
	sort.Slice(ks, func(i, j int) bool { return ks[i] < ks[j] })
	return ks
}

// event kinds beyond the shim's (which occupy 0..6) and the navigator's
const (
	evNavBase  = 100 // + world method
	evOpBegin  = 200
	evOpEnd    = 201
	evLoadIn   = 202
	evLoadOK   = 203
	evLoadErr  = 204
	evDone     = 205
	evLoadMid  = 206
	evExtBlock = 207
)

func kindName(k int) string {
	switch {
	case k >= evNavBase && k < evNavBase+world.NumMethods:
		return "nav"
	case k == vs.EvEnter:
		return "enter"
	case k == vs.EvRLock || k == vs.EvLock || k == vs.EvRUnlock || k == vs.EvUnlock:
		return "lock"
	case k == vs.EvPoolGet || k == vs.EvPoolPut:
		return "pool"
	case k == vs.EvAtomic:
		return "atomic"
	case k == evLoadIn || k == evLoadOK || k == evLoadErr || k == evLoadMid:
		return "load"
	case k == evOpBegin || k == evOpEnd:
		return "op"
	}
	return "other"
}

func yieldBit(k int) int {
	switch kindName(k) {
	case "nav":
		return scn.YNav
	case "enter":
		return scn.YEnter
	case "lock", "atomic":
		return scn.YLock
	case "pool":
		return scn.YPool
	case "load":
		return scn.YLoad
	}
	return 0
}

// Sim is the state of the run in progress.
type Sim struct {
	mode    byte
	cfg     scn.Config
	mainEnv *Env // operation in progress on the main goroutine (mode H, solo oracles)
	locks   lockModel
	st      *Stats
	trace   bool
	tr      []string
	hash    uint64

	// mode G
	tasks   []*task
	current atomic.Int32
	toSched chan ymsg
	g       *gstate
	// degraded is set once a task was found blocked on a primitive the simulator
	// does not model (a channel, a Cond, a WaitGroup introduced by an edit): from
	// then on two tasks may physically run at once for short stretches, and the
	// caller of a hook is identified by its goroutine id instead of by `current`.
	// cutoff: the race oracle has already fired in this run; operations still in
	// progress are wound up at their next navigator call or function entry so
	// that a racing loop does not flood the detector's log
	cutoff   atomic.Bool
	degraded atomic.Bool
	// what the scheduler is currently waiting for (watchdog input)
	waitTask atomic.Int32
	waitSeq  atomic.Uint64
}

// who identifies the task on whose goroutine the caller runs (-1: main).
func (s *Sim) who() int32 {
	if !s.degraded.Load() {
		return s.current.Load()
	}
	me := goid()
	for _, t := range s.tasks {
		if t.goid.Load() == me {
			return t.id
		}
	}
	return -1
}

// goid parses the current goroutine's id from its stack header.
func goid() uint64 {
	var buf [64]byte
	n := runtime.Stack(buf[:], false)
	// "goroutine 123 ["
	var id uint64
	for i := len("goroutine "); i < n && buf[i] >= '0' && buf[i] <= '9'; i++ {
		id = id*10 + uint64(buf[i]-'0')
	}
	return id
}

var sim atomic.Pointer[Sim]

func mix(h uint64, a, b uint64) uint64 {
	h ^= a + 0x9e3779b97f4a7c15 + (h << 6) + (h >> 2)
	h ^= b + 0x9e3779b97f4a7c15 + (h << 6) + (h >> 2)
	return h * 1099511628211
}

// Install hooks once per process.
func Install() {
	world.SetHook(func(m int, n *world.Nav) {
		s := sim.Load()
		if s == nil {
			return
		}
		s.onEvent(evNavBase+m, uint64(n.ID()), n)
	})
	vs.SetHook(func(kind int, obj uintptr, name string) {
		s := sim.Load()
		if s == nil {
			return
		}
		var a uint64
		if kind == vs.EvEnter {
			a = scn.HashString(name)
			cur := s.who()
			if cur >= 0 {
				s.tasks[cur].stats.Funcs[name]++
			} else if s.mainEnv != nil {
				s.st.Funcs[name]++
			}
			if s.trace && cur >= 0 {
				s.tasks[cur].note = name
			}
		} else {
			a = uint64(obj)
		}
		s.onEvent(kind, a, nil)
	})
}

func (s *Sim) onEvent(kind int, a uint64, nav *world.Nav) {
	cur := s.who()
	var e *Env
	var t *task
	if cur >= 0 {
		t = s.tasks[cur]
		e = t.env
	} else {
		e = s.mainEnv
	}
	if e == nil {
		return // harness-side observation, outside any simulated operation
	}
	isLock := kind >= vs.EvRLock && kind <= vs.EvUnlock
	var ha uint64 = a
	if isLock || kind == vs.EvPoolGet || kind == vs.EvPoolPut || kind == vs.EvAtomic {
		ha = 0 // addresses are not reproducible; lock ids are logged by the model below
	}
	e.Steps++
	e.hash = mix(e.hash, uint64(kind), ha)
	if nav != nil {
		e.NavCalls++
		if t != nil && nav.Owner != t.id {
			t.stats.Probes["foreign_nav_use"]++
		}
		if e.CrashAt > 0 && e.NavCalls == e.CrashAt {
			e.Crashed = true
			panic(&Abort{Why: "nav-panic"})
		}
	}
	// The step budget is enforced only at navigator calls, function entries and
	// loader events - never at a lock, pool or atomic event: those are announced
	// around the real operation (a release has already happened when it is
	// announced), and an abort raised there would leave the lock model out of
	// step with the real locks and turn into a false deadlock verdict later.
	if (nav != nil || kind == vs.EvEnter || kind == evLoadIn || kind == evLoadMid) && (e.Steps > e.Budget || (t != nil && s.cutoff.Load())) {
		if e.Steps <= e.Budget {
			e.CutOff = true
			panic(&Abort{Why: "race-cutoff"})
		}
		panic(&Abort{Why: "budget"})
	}
	if t == nil {
		// single goroutine: model the locks directly
		if isLock {
			id := s.locks.id(uintptr(a))
			switch kind {
			case vs.EvLock, vs.EvRLock:
				r := lockReq{lock: id, write: kind == vs.EvLock}
				if !s.locks.canAcquire(r, -2) {
					panic(&Abort{Why: "deadlock"})
				}
				s.locks.acquire(r, -2)
			case vs.EvUnlock:
				s.locks.release(id, true, -2)
			case vs.EvRUnlock:
				s.locks.release(id, false, -2)
			}
		}
		return
	}
	t.stats.Yields[kindName(kind)]++
	// lock, loader and operation-boundary events always reach the scheduler (it
	// keeps the lock model and the reach probes); the other kinds are
	// scheduling points only when this run's swarm configuration enables them
	if isLock || kind >= evOpBegin || s.cfg.Yields&yieldBit(kind) != 0 {
		s.yield(t, kind, a)
	}
}

func evName(k int) string {
	if k >= evNavBase && k < evNavBase+world.NumMethods {
		return world.MethodNames[k-evNavBase]
	}
	switch k {
	case vs.EvEnter:
		return "enter"
	case vs.EvRLock:
		return "RLock"
	case vs.EvRUnlock:
		return "RUnlock"
	case vs.EvLock:
		return "Lock"
	case vs.EvUnlock:
		return "Unlock"
	case vs.EvPoolGet:
		return "PoolGet"
	case vs.EvPoolPut:
		return "PoolPut"
	case vs.EvAtomic:
		return "atomic-op"
	case evOpBegin:
		return "op-begin"
	case evOpEnd:
		return "op-end"
	case evLoadIn:
		return "load-in"
	case evLoadOK:
		return "load-ok"
	case evLoadErr:
		return "load-err"
	case evLoadMid:
		return "load-mid"
	case evDone:
		return "done"
	case evExtBlock:
		return "blocked-outside-simulator"
	}
	return strconv.Itoa(k)
}

// ---------------------------------------------------------------------------
// outcomes

func classifyPanic(p interface{}) (kind, v string) {
	switch x := p.(type) {
	case *Abort:
		return "abort", x.Why
	case runtime.Error:
		return "prt", x.Error()
	case error:
		var ab *Abort
		if asAbort(x, &ab) {
			return "abort", ab.Why
		}
		return "perr", x.Error()
	case string:
		return "perr", x
	}
	return "perr", fmt.Sprintf("%T:%v", p, p)
}

func asAbort(err error, out **Abort) bool {
	for err != nil {
		if a, ok := err.(*Abort); ok {
			*out = a
			return true
		}
		u, ok := err.(interface{ Unwrap() error })
		if !ok {
			return false
		}
		err = u.Unwrap()
	}
	return false
}

func fmtFloat(f float64) string {
	if math.IsNaN(f) {
		return "NaN"
	}
	return strconv.FormatFloat(f, 'g', -1, 64)
}

func valueOutcome(v interface{}) Outcome {
	switch t := v.(type) {
	case nil:
		return Outcome{Kind: "nil"}
	case bool:
		return Outcome{Kind: "bool", V: strconv.FormatBool(t)}
	case float64:
		return Outcome{Kind: "num", V: fmtFloat(t)}
	case string:
		return Outcome{Kind: "str", V: t}
	}
	return Outcome{Kind: "other", V: fmt.Sprintf("%T:%v", v, v)}
}

const maxNodes = 20000

// moveNext performs one guarded MoveNext and reports (ok, id, how it ended).
func moveNext(it *xpath.NodeIterator) (ok bool, id int, tail string) {
	defer func() {
		if p := recover(); p != nil {
			k, v := classifyPanic(p)
			ok, id, tail = false, -1, k+":"+v
		}
	}()
	if !it.MoveNext() {
		return false, -1, ""
	}
	n, isNav := it.Current().(world.IDer)
	if !isNav {
		return false, -1, "other:current is not a harness navigator"
	}
	return true, n.ID(), ""
}

// drain iterates to the end (or to limit nodes when limit>0).
func drain(it *xpath.NodeIterator, limit int) Outcome {
	o := Outcome{Kind: "nodes", IDs: []int{}}
	for {
		if limit > 0 && len(o.IDs) >= limit {
			o.Tail = "prefix"
			return o
		}
		ok, id, tail := moveNext(it)
		if !ok {
			o.Tail = tail
			return o
		}
		o.IDs = append(o.IDs, id)
		if len(o.IDs) > maxNodes {
			o.Tail = "cap"
			return o
		}
	}
}

// evaluate performs one guarded Evaluate. A node-set result is returned as an
// iterator for the caller to drain.
func evaluate(ex *xpath.Expr, nav xpath.NodeNavigator) (o Outcome, it *xpath.NodeIterator) {
	defer func() {
		if p := recover(); p != nil {
			k, v := classifyPanic(p)
			o, it = Outcome{Kind: k, V: v}, nil
		}
	}()
	v := ex.Evaluate(nav)
	if ni, ok := v.(*xpath.NodeIterator); ok {
		return Outcome{Kind: "nodes"}, ni
	}
	return valueOutcome(v), nil
}

// useNS is set per run (Cfg.NS): every Compile of the run goes through
// CompileWithNS with nsMap, so name tests with a prefix match by namespace URL.
var (
	useMust bool // Cfg.Must: compile through MustCompile
	useNS   bool
	nsMap   = map[string]string{"x": "urn:x", "y": "urn:y"}
)

// selectAll performs a guarded Select and drains the iterator. Select itself
// (cloning the tree) can panic on the trees the builder produces for
// expressions with variable references.
func selectAll(ex *xpath.Expr, nav xpath.NodeNavigator, limit int) (o Outcome) {
	defer func() {
		if p := recover(); p != nil {
			k, v := classifyPanic(p)
			o = Outcome{Kind: k, V: v}
		}
	}()
	return drain(ex.Select(nav), limit)
}

// selectIter is Select for a handle; when Select itself panics the handle gets
// an iterator over nothing and the reference outcome (same panic) differs from
// what such a handle reports, so histories simply do not open handles on it.
func selectIter(ex *xpath.Expr, nav xpath.NodeNavigator) (it *xpath.NodeIterator) {
	defer func() {
		if p := recover(); p != nil {
			it = nil
		}
	}()
	return ex.Select(nav)
}

func compile(text string) (ex *xpath.Expr, o Outcome) {
	defer func() {
		if p := recover(); p != nil {
			k, v := classifyPanic(p)
			ex, o = nil, Outcome{Kind: k, V: "compile: " + v}
		}
	}()
	if useMust {
		return xpath.MustCompile(text), Outcome{}
	}
	var err error
	if useNS {
		ex, err = xpath.CompileWithNS(text, nsMap)
	} else {
		ex, err = xpath.Compile(text)
	}
	if err != nil {
		var ab *Abort
		if asAbort(err, &ab) {
			return nil, Outcome{Kind: "abort", V: ab.Why}
		}
		return nil, Outcome{Kind: "cerr", V: err.Error()}
	}
	return ex, Outcome{}
}
