package run

import (
	"fmt"
	"os"
	"runtime"
	"strings"
	"sync/atomic"
	"time"

	"github.com/antchfx/xpath"
	vs "github.com/antchfx/xpath/verifsync"
	"verifsim/scn"
	"verifsimw/world"
)

// task is one simulated caller: a real goroutine that runs only while the
// scheduler has handed it the baton.
type task struct {
	id       int32
	ops      []scn.Step
	want     []Outcome // reference outcomes, computed by the main goroutine before the tasks exist
	env      *Env
	wake     chan struct{}
	realDone chan struct{} // closed outside RaceDisable: the only real happens-before edge task -> main
	exit     chan struct{} // closed by main after the race log of the run has been read
	stats    *Stats
	viol     []Violation
	pending  []pendingOp // cold runs: outcomes waiting for their reference
	note     string      // attached to the next yield message (trace mode only)
	hash     uint64
	goid     atomic.Uint64
}

type ymsg struct {
	task int32
	kind int32
	a    uint64
	note string
}

type traceEntry struct {
	task int32
	kind int32
	a    uint64
	note string
}

// gstate is the scheduler's private state (touched by the main goroutine only).
type gstate struct {
	lastKind int // kind of the event the task that ran last is parked at
	// SyncBias under the pct strategy: ordinals of synchronisation events at
	// which the announcing task is demoted
	preemptSync map[int64]bool
	syncSeen    int64
	syncHit     bool
	rng         *scn.Rng
	live        int
	done        []bool
	pend        []*lockReq
	inOp        []int64  // expression index / key hash the task is working on, -1 between operations
	inWindow    []uint64 // key hash while the task is between load-in and its store (0 = not)
	prio        []int
	preemptAt   map[int64]bool
	lowPrio     int
	last        int32
	point       int64
	rle         []int
	replay      []int
	replayPos   int
	replayCnt   int
	diverged    bool
	overlap     bool
	trace       []traceEntry
	deadlock    string
	ext         []bool // task is blocked on a primitive the simulator does not model
}

var (
	processPoisoned atomic.Bool
	// mainOpSeq is odd while a simulated operation runs on the main goroutine
	// (written by the main goroutine only: it orders nothing between tasks)
	mainOpSeq  atomic.Uint64
	hangReport atomic.Pointer[func(string)]
	// genSeq is odd while the generator asks the engine whether a text compiles
	genSeq  atomic.Uint64
	genText atomic.Pointer[string]
)

// ProcessPoisoned: some run of this process ended with task goroutines left
// behind; no further run should be executed in it.
func ProcessPoisoned() bool { return processPoisoned.Load() }

// yield parks the calling task and hands control to the scheduler. The channel
// operations are hidden from the race detector: the tasks stay logically
// concurrent for it although they are physically serialised.
func (s *Sim) yield(t *task, kind int, a uint64) {
	raceDisable()
	note := t.note
	t.note = ""
	s.toSched <- ymsg{task: t.id, kind: int32(kind), a: a, note: note}
	<-t.wake
	raceEnable()
}

func (g *gstate) record(t int32) {
	n := len(g.rle)
	if n >= 2 && g.rle[n-2] == int(t) {
		g.rle[n-1]++
		return
	}
	g.rle = append(g.rle, int(t), 1)
}

func (x *exec) runnable() []int32 {
	g := x.sim.g
	var out []int32
	for i := range x.sim.tasks {
		if g.done[i] || g.ext[i] {
			continue
		}
		if p := g.pend[i]; p != nil {
			if !x.sim.locks.canAcquire(*p, int32(i)) {
				continue
			}
			// Go's RWMutex: once some goroutine has called Lock, later RLock calls
			// wait until that writer has come and gone (even while readers still
			// hold the lock). A reader is only resumed into its real RLock when no
			// other task has announced a Lock on the same mutex.
			if !p.write && x.writerPending(p.lock, i) {
				continue
			}
		}
		out = append(out, int32(i))
	}
	return out
}

func (x *exec) writerPending(lock, except int) bool {
	g := x.sim.g
	for j, q := range g.pend {
		if j != except && q != nil && q.write && q.lock == lock && !g.done[j] {
			return true
		}
	}
	return false
}

func has(l []int32, v int32) bool {
	for _, x := range l {
		if x == v {
			return true
		}
	}
	return false
}

// pick chooses the task to run at this scheduling point.
func (x *exec) pick(run []int32) int32 {
	g := x.sim.g
	cfg := x.s.Cfg
	if g.replay != nil {
		for g.replayPos+1 < len(g.replay) && g.replayCnt >= g.replay[g.replayPos+1] {
			g.replayPos += 2
			g.replayCnt = 0
		}
		if g.replayPos+1 < len(g.replay) {
			want := int32(g.replay[g.replayPos])
			g.replayCnt++
			if has(run, want) {
				return want
			}
		}
		g.diverged = true
		if has(run, g.last) {
			return g.last
		}
		return run[0]
	}
	switch cfg.Strategy {
	case "pct":
		if (g.preemptAt[g.point] || g.syncHit) && g.last >= 0 {
			g.syncHit = false
			g.lowPrio--
			g.prio[g.last] = g.lowPrio
		}
		best := run[0]
		for _, t := range run[1:] {
			if g.prio[t] > g.prio[best] {
				best = t
			}
		}
		return best
	default:
		den := cfg.SwitchDen
		if den < 1 {
			den = 4
		}
		if cfg.SyncBias && g.lastKind >= vs.EvRLock && g.lastKind <= vs.EvAtomic {
			// the running task has just announced a lock, pool or atomic operation:
			// the places where check-then-act windows open. Switch much more often here.
			den = 2
		}
		if has(run, g.last) && !g.rng.Chance(1, den) {
			return g.last
		}
		return run[g.rng.Intn(len(run))]
	}
}

// RunG executes a mode G scenario.
func RunG(s *scn.Scenario, opt Options) *Result {
	x := newExec(s, opt)
	x.sim.mode = 'G'
	sim.Store(x.sim)
	defer x.finish()
	x.installCache()

	// "compile once, share": the main goroutine compiles the expressions that
	// select / eval operations use. Expressions only ever compiled by the tasks
	// themselves are not compiled here, so that concurrent Compile calls meet a
	// package (and a namespace map) nobody has warmed up for them.
	usedShared := map[int]bool{}
	for _, ops := range s.Tasks {
		for _, st := range ops {
			if st.Op == "select" || st.Op == "eval" {
				usedShared[st.E%len(s.Exprs)] = true
			}
		}
	}
	for i, es := range s.Exprs {
		if s.Prop == "C05" && !usedShared[i] {
			x.shared = append(x.shared, nil)
			continue
		}
		e := x.begin(SoloBudget, 0)
		ex, _ := compile(es.Text)
		x.end(e)
		x.shared = append(x.shared, ex)
	}

	if s.Prop == "C16" && len(x.docs) > 0 {
		for _, text := range PNodeTexts {
			e := x.begin(SoloBudget, 0)
			ex, _ := compile(text)
			x.end(e)
			x.pnode = append(x.pnode, ex)
		}
	}

	if s.Cfg.NS && s.Cfg.NSRebind {
		// an earlier request compiled these texts under the old bindings; then the
		// client re-binds its prefixes in the SAME map object (its right) and the
		// tasks compile the same texts again
		for _, es := range s.Exprs {
			e := x.begin(SoloBudget, 0)
			compile(es.Text)
			x.end(e)
		}
		nsMap["x"], nsMap["y"] = nsMap["y"], nsMap["x"]
	}

	// reference outcomes, before any concurrency exists
	nt := len(s.Tasks)
	g := &gstate{rng: scn.NewRng(s.SchedSeed, 0x5ced), done: make([]bool, nt), pend: make([]*lockReq, nt), inOp: make([]int64, nt),
		inWindow: make([]uint64, nt), prio: make([]int, nt), preemptAt: map[int64]bool{}, last: -1, ext: make([]bool, nt)}

	x.sim.g = g
	x.sim.toSched = make(chan ymsg)
	var estimate int64
	for i, ops := range s.Tasks {
		t := &task{id: int32(i), ops: ops, wake: make(chan struct{}), realDone: make(chan struct{}), exit: make(chan struct{}), stats: NewStats()}
		for _, st := range ops {
			w := Outcome{Steps: 2000}
			if !(s.Cfg.ColdProcess && s.Prop == "C05") {
				w = x.wantFor(st)
			}
			t.want = append(t.want, w)
			estimate += (int64(w.Steps) + 4) * int64(st.Rep+1)
		}
		x.sim.tasks = append(x.sim.tasks, t)
		g.inOp[i] = -1
		g.prio[i] = g.rng.Intn(1000) + 10
	}
	if len(s.Sched) > 0 {
		g.replay = s.Sched
	}
	if estimate < 8 {
		estimate = 8
	}
	for k := 0; k < s.Cfg.Preempts; k++ {
		g.preemptAt[int64(g.rng.Intn(int(estimate)))] = true
	}
	if s.Cfg.SyncBias {
		// priority changes aimed at synchronisation events: the k-th lock / pool /
		// atomic / loader event of the run (whoever announces it) demotes that task
		// until the others finish or block - the long delay a check-then-act window
		// across two critical sections needs
		nops := 0
		for _, ops := range s.Tasks {
			for _, st := range ops {
				nops += 1 + st.Rep
			}
		}
		g.preemptSync = map[int64]bool{}
		for k := 0; k < s.Cfg.Preempts+1; k++ {
			g.preemptSync[int64(g.rng.Intn(8*nops+8))] = true
		}
	}
	mark := opt.RaceLog.Mark()
	x.raceLog, x.raceMark = opt.RaceLog, mark

	for _, t := range x.sim.tasks {
		go x.taskMain(t)
	}
	g.live = nt
	stopWatch := make(chan struct{})
	go x.watchdog(stopWatch)
	x.schedule()
	close(stopWatch)

	if g.deadlock == "" {
		for _, t := range x.sim.tasks {
			<-t.realDone
		}
		for _, t := range x.sim.tasks {
			x.res.Viol = append(x.res.Viol, t.viol...)
			x.res.Stats.Add(t.stats)
			x.sim.hash = mix(x.sim.hash, t.hash, uint64(t.id))
		}
		if x.cache != nil {
			x.cache.check(-1)
		}
		if s.Cfg.ColdProcess && s.Prop == "C05" {
			// cold run: references only now, after the tasks have met a cold package
			for _, t := range x.sim.tasks {
				for _, p := range t.pending {
					want := x.wantFor(p.st)
					x.res.Stats.Ops++
					if v := x.judgeC05(t.id, p.i, p.st, p.got, want, p.exempt); v != nil {
						x.res.Viol = append(x.res.Viol, *v)
					} else if !want.Aborted() {
						x.res.Stats.OpsCompared++
					}
				}
			}
			x.res.Stats.Probes["cold_process_runs"]++
		}
		x.recheckSolos()
		x.verifyPristine(opt)
	} else {
		x.viol("deadlock", "deadlock", g.deadlock, -1)
		x.res.Poisoned = true
		processPoisoned.Store(true)
	}
	if rep := opt.RaceLog.Since(mark); rep != "" {
		x.raceViolations(rep)
	}
	for _, t := range x.sim.tasks {
		close(t.exit) // parked or deadlocked tasks never read it; finished ones leave now
	}
	x.res.Sched = g.rle
	x.res.SchedHash = hashInts(g.rle)
	x.res.Diverged = g.diverged
	x.res.Nontrivial = g.overlap
	x.res.Stats.Points += g.point
	if x.sim.trace {
		for _, te := range g.trace {
			x.sim.tr = append(x.sim.tr, fmt.Sprintf("t%d %s %s", te.task, evName(int(te.kind)), te.note))
		}
	}
	return x.res
}

func hashInts(a []int) uint64 {
	h := uint64(1469598103934665603)
	for _, v := range a {
		h = mix(h, uint64(v), 7)
	}
	return h
}

// schedule is the scheduler loop; it runs on the main goroutine.
func (x *exec) schedule() {
	s := x.sim
	g := s.g
	checkState := x.s.Prop == "C16" && !raceEnabled
	for g.live > 0 {
		if raceEnabled && g.point%32 == 31 && !s.cutoff.Load() && x.raceLog.Grown(x.raceMark) {
			s.cutoff.Store(true)
		}
		run := x.runnable()
		if len(run) == 0 && x.awaitExternallyBlocked() {
			continue // a task that was blocked outside the simulator came back
		}
		if len(run) == 0 {
			var w []string
			for i, p := range g.pend {
				if p != nil && !g.done[i] {
					w = append(w, fmt.Sprintf("task %d waits for lock %d (write=%v)", i, p.lock, p.write))
				}
			}
			for i, e := range g.ext {
				if e && !g.done[i] {
					w = append(w, fmt.Sprintf("task %d is blocked on a channel / condition inside the package that nobody is left to signal", i))
				}
			}
			g.deadlock = "no task can run: " + strings.Join(w, "; ")
			return
		}
		next := x.pick(run)
		g.record(next)
		if next != g.last && g.last >= 0 {
			x.res.Stats.Switches++
			if !g.done[g.last] && has(run, g.last) {
				x.res.Stats.Preempts++
				x.res.Stats.Faults["preempt"]++
			}
			// overlap: some other task is in the middle of an operation on the same object
			if g.inOp[next] >= 0 {
				for u := range g.inOp {
					if int32(u) != next && g.inOp[u] == g.inOp[next] && !g.done[u] {
						g.overlap = true
						x.res.Stats.Probes["two_tasks_in_same_object"]++
						break
					}
				}
			}
		}
		g.last = next
		g.point++
		t := s.tasks[next]
		if p := g.pend[next]; p != nil {
			s.locks.acquire(*p, next)
			g.pend[next] = nil
		}
		s.current.Store(next)
		raceDisable()
		t.wake <- struct{}{}
		raceEnable()
		var m ymsg
		for {
			var ok bool
			m, ok = x.recv(t)
			if !ok {
				// the running task blocked on something the simulator does not model;
				// leave it there and let another task run (it announces itself again
				// at its next yield point once somebody has woken it)
				g.ext[next] = true
				if !s.degraded.Load() {
					s.degraded.Store(true)
				}
				x.res.Stats.Probes["task_blocked_on_unmodelled_primitive"]++
				m = ymsg{task: next, kind: evExtBlock}
				break
			}
			if m.task == next {
				break
			}
			// a task that had been blocked externally reached a yield point: it is
			// parked in the simulator again
			x.handle(m)
			g.ext[m.task] = false
		}
		s.current.Store(-1)
		g.lastKind = int(m.kind)
		if g.preemptSync != nil && (g.lastKind >= vs.EvRLock && g.lastKind <= vs.EvAtomic || g.lastKind == evLoadIn) {
			if g.preemptSync[g.syncSeen] {
				g.syncHit = true
			}
			g.syncSeen++
		}
		x.handle(m)
		// the cache can only have changed when a write lock was just released;
		// also look at operation boundaries and after failed loads
		if k := int(m.kind); checkState && (k == vs.EvUnlock || k == evOpEnd || k == evLoadErr) && x.cache != nil && !s.locks.anyWriter() && len(x.res.Viol) == 0 {
			x.cache.check(int(g.point))
		}
	}
}

// recv waits for the next yield message (a plain blocking receive, hidden from
// the race detector). While it waits, the watchdog goroutine looks at the
// running task every 2 ms; if the task's goroutine is parked on something that
// is not the simulator (decided from its state in a stack dump, never from
// elapsed time alone) the watchdog posts an evExtBlock message on its behalf.
func (x *exec) recv(t *task) (m ymsg, ok bool) {
	s := x.sim
	s.waitSeq.Add(1)
	s.waitTask.Store(t.id)
	raceDisable()
	m = <-s.toSched
	raceEnable()
	s.waitTask.Store(-1)
	if m.kind == evExtBlock {
		if m.task != t.id || m.a != s.waitSeq.Load() {
			// stale (the task yielded in the meantime): ignore and keep waiting
			return x.recv2(t)
		}
		return m, false
	}
	return m, true
}

func (x *exec) recv2(t *task) (ymsg, bool) { return x.recv(t) }

// awaitExternallyBlocked is called when no task is runnable. If some tasks
// are blocked outside the simulator, one of them may just have been woken by
// the task that ran last and be on its way to its next yield point: wait for
// its message. Only when every such task is still seen waiting on its
// synchronisation object in three looks 20 ms apart is the verdict deadlock.
func (x *exec) awaitExternallyBlocked() bool {
	s := x.sim
	g := s.g
	any := false
	for i, e := range g.ext {
		if e && !g.done[i] {
			any = true
		}
	}
	if !any {
		return false
	}
	stillBlocked := 0
	for i := 0; i < 400; i++ {
		var m ymsg
		got := false
		raceDisable()
		select {
		case m = <-s.toSched:
			got = true
		default:
		}
		raceEnable()
		if got {
			if m.kind == evExtBlock {
				continue // stale watchdog note
			}
			x.handle(m)
			g.ext[m.task] = false
			return true
		}
		time.Sleep(time.Millisecond)
		if i%20 == 19 {
			all := true
			for t, e := range g.ext {
				if e && !g.done[t] && !blockedOutsideSimulator(s.tasks[t].goid.Load()) {
					all = false
				}
			}
			if all {
				stillBlocked++
				if stillBlocked >= 3 {
					return false
				}
			} else {
				stillBlocked = 0
			}
		}
	}
	return false
}

// watchdog runs for the duration of one mode G run.
func (x *exec) watchdog(stop chan struct{}) {
	s := x.sim
	var lastSeq uint64
	var lastTask int32 = -1
	since := time.Now()
	for {
		select {
		case <-stop:
			return
		case <-time.After(2 * time.Millisecond):
		}
		id, seq := s.waitTask.Load(), s.waitSeq.Load()
		if id < 0 || id != lastTask || seq != lastSeq {
			lastTask, lastSeq = id, seq
			since = time.Now()
			continue // the scheduler moved on since the last look
		}
		if time.Since(since) > 30*time.Second && !blockedOutsideSimulator(s.tasks[id].goid.Load()) {
			// the scheduler has been waiting for the same yield of the same task for
			// 30 s of real time and the task is not blocked: it spins
			if rp := hangReport.Load(); rp != nil {
				(*rp)(fmt.Sprintf("task %d has been running for 30 s of real time without reaching a yield point (navigator call, function entry, lock, ...) and without finishing: it loops (or allocates) without bound", id))
			}
			return
		}
		if !blockedOutsideSimulator(s.tasks[id].goid.Load()) {
			continue
		}
		time.Sleep(time.Millisecond)
		if !blockedOutsideSimulator(s.tasks[id].goid.Load()) {
			continue // must be seen waiting twice
		}
		if s.waitTask.Load() != id || s.waitSeq.Load() != seq {
			continue
		}
		raceDisable()
		select {
		case s.toSched <- ymsg{task: id, kind: evExtBlock, a: seq}:
		case <-stop:
		}
		raceEnable()
		lastTask = -1
	}
}

// HangWatch watches the main goroutine. Histories (mode H), reference runs and
// pre-compilation execute the package under test on the main goroutine, where
// no scheduler can step in: if that goroutine is seen waiting on a
// synchronisation object inside the package in five looks 200 ms apart, the
// process can never continue, and report is called with a description (it is
// expected to write the verdict and exit).
func HangWatch(report func(detail string)) {
	hangReport.Store(&report)
	go func() {
		seen := 0
		last := ""
		var spinSeq, genSpinSeq uint64
		var spinSince, genSpinSince time.Time
		for {
			time.Sleep(200 * time.Millisecond)
			// spinning: one simulated operation on the main goroutine has been
			// running for 30 s of real time (they take micro- to milliseconds). Only
			// a loop that reaches neither a navigator call nor a function entry of
			// the package can do that - the step budget stops every other loop.
			if q := mainOpSeq.Load(); q%2 == 1 {
				if q != spinSeq {
					spinSeq, spinSince = q, time.Now()
				} else if time.Since(spinSince) > 30*time.Second {
					report("an operation has been running for 30 s of real time without reaching a navigator call or a function entry of the package, and without finishing: it loops (or allocates) without bound")
					return
				}
			} else {
				spinSeq = 0
			}
			// Compile of a generated text that never returns: not a verdict about any
			// simulated property (it is a pure function of the text), but the
			// simulation cannot proceed - say so and stop instead of waiting for the
			// driver's watchdog
			if q := genSeq.Load(); q%2 == 1 {
				if q != genSpinSeq {
					genSpinSeq, genSpinSince = q, time.Now()
				} else if time.Since(genSpinSince) > 30*time.Second {
					t := ""
					if p := genText.Load(); p != nil {
						t = *p
					}
					fmt.Fprintf(os.Stderr, "xpsim: while generating scenarios, Compile(%q) has not returned for 30 s of real time: Compile does not terminate on this text, the simulation cannot proceed\n", t)
					os.Exit(2)
				}
			} else {
				genSpinSeq = 0
			}
			buf := make([]byte, 1<<18)
			n := runtime.Stack(buf, true)
			dump := string(buf[:n])
			i := strings.Index(dump, "goroutine 1 [")
			if i < 0 {
				seen = 0
				continue
			}
			rest := dump[i+len("goroutine 1 ["):]
			if end := strings.Index(rest, "\n\ngoroutine "); end >= 0 {
				rest = rest[:end]
			}
			state := rest[:strings.Index(rest, "]")]
			if j := strings.Index(state, ","); j >= 0 {
				state = state[:j]
			}
			blocking := strings.HasPrefix(state, "chan receive") || strings.HasPrefix(state, "chan send") || strings.HasPrefix(state, "select") ||
				strings.HasPrefix(state, "sync.") || state == "semacquire"
			if !blocking || !strings.Contains(rest, "github.com/antchfx/xpath.") || strings.Contains(rest, "verifsimw/run.(*Sim).yield") {
				seen, last = 0, ""
				continue
			}
			// the innermost frame of the package under test
			frame := ""
			for _, l := range strings.Split(rest, "\n") {
				if strings.HasPrefix(l, "github.com/antchfx/xpath.") {
					frame = l
					break
				}
			}
			if frame != last {
				seen, last = 1, frame
				continue
			}
			seen++
			if seen >= 5 {
				if k := strings.Index(frame, "("); k > 0 {
					frame = frame[:k]
				}
				report(fmt.Sprintf("the calling goroutine is blocked for ever (%s) inside %s: nothing is left that could wake it", state, strings.TrimPrefix(frame, "github.com/antchfx/xpath.")))
				return
			}
		}
	}()
}

// blockedOutsideSimulator inspects the goroutine's state: waiting (channel,
// select, Cond, semaphore, ...) but not inside the simulator's own yield.
func blockedOutsideSimulator(id uint64) bool {
	if id == 0 || os.Getenv("XPSIM_NOSTACK") != "" {
		return false
	}
	buf := make([]byte, 1<<18)
	n := runtime.Stack(buf, true)
	dump := string(buf[:n])
	hdr := fmt.Sprintf("goroutine %d [", id)
	i := strings.Index(dump, hdr)
	if i < 0 {
		return false
	}
	rest := dump[i+len(hdr):]
	end := strings.Index(rest, "\n\ngoroutine ")
	if end < 0 {
		end = len(rest)
	}
	block := rest[:end]
	state := block[:strings.Index(block, "]")]
	if j := strings.Index(state, ","); j >= 0 {
		state = state[:j]
	}
	// only genuine waits on a synchronisation object count; a goroutine that is
	// running, runnable, in a syscall, or held up by the runtime (GC assist wait,
	// preempted, copystack, ...) is not blocked in the package under test
	switch {
	case strings.HasPrefix(state, "chan receive"), strings.HasPrefix(state, "chan send"), strings.HasPrefix(state, "select"),
		strings.HasPrefix(state, "sync."), state == "semacquire", state == "sleep":
	default:
		return false
	}
	if strings.Contains(block, "verifsimw/run.(*Sim).yield") || strings.Contains(block, "verifsimw/run.(*exec).taskMain(") && !strings.Contains(block, "github.com/antchfx/xpath") {
		return false // parked (or about to park) in the simulator itself
	}
	return true
}

func (x *exec) handle(m ymsg) {
	s := x.sim
	g := s.g
	if s.trace {
		g.trace = append(g.trace, traceEntry{m.task, m.kind, m.a, m.note})
	}
	k := int(m.kind)
	switch k {
	case evDone:
		g.done[m.task] = true
		g.live--
	case vs.EvLock, vs.EvRLock:
		id := s.locks.id(uintptr(m.a))
		g.pend[m.task] = &lockReq{lock: id, write: k == vs.EvLock}
	case vs.EvUnlock:
		s.locks.release(s.locks.id(uintptr(m.a)), true, m.task)
		if g.inWindow[m.task] != 0 {
			g.inWindow[m.task] = 0
		}
	case vs.EvRUnlock:
		s.locks.release(s.locks.id(uintptr(m.a)), false, m.task)
	case evOpBegin:
		g.inOp[m.task] = int64(m.a)
	case evOpEnd:
		g.inOp[m.task] = -1
	case evLoadIn:
		for u, w := range g.inWindow {
			if int32(u) != m.task && w != 0 {
				if w == m.a {
					x.res.Stats.Probes["window_overlap_same_key"]++
				} else {
					x.res.Stats.Probes["window_overlap_diff_key"]++
				}
			}
		}
		g.inWindow[m.task] = m.a
	case evLoadErr:
		g.inWindow[m.task] = 0
		if x.cache != nil {
			x.cache.badLoads[m.a]++
		}
	case evLoadOK:
		if x.cache != nil {
			x.cache.okLoads[m.a]++
		}
	}
}

// RepStepCap bounds the work spent on warm-up repeats (steps of logical time
// per task in goroutine runs, per run in histories): an expensive operation
// repeated a thousand times explores nothing new.
const RepStepCap = 250000

func (x *exec) taskMain(t *task) {
	s := x.sim
	t.goid.Store(goid())
	raceDisable()
	<-t.wake
	raceEnable()
	for i, st := range t.ops {
		for k := 0; k <= st.Rep && (k == 0 || len(t.viol) == 0); k++ {
			if k > 0 && t.stats.Steps > RepStepCap {
				break // warm-up repeats are cut short once the task has done this much work
			}
			x.taskOp(t, i, st)
		}
	}
	t.env = nil
	raceDisable()
	s.toSched <- ymsg{task: t.id, kind: evDone}
	raceEnable()
	close(t.realDone)
	// Stay alive until main has collected the race reports of this run: the
	// detector silently drops a report when it cannot restore the stack of the
	// earlier access, and the trace of a finished goroutine may be recycled.
	<-t.exit
}

// wantFor computes the reference outcome of a task operation (main goroutine).
func (x *exec) wantFor(st scn.Step) Outcome {
	if x.s.Prop != "C05" || st.Op == "gc" {
		return Outcome{Steps: 200}
	}
	text, api, limit := x.opText(st)
	d := st.D % len(x.docs)
	if st.Op == "mustbad" {
		return x.soloMust(text, d, st.C)
	}
	return x.solo(text, d, st.C, api, limit)
}

func (x *exec) opText(st scn.Step) (text, api string, limit int) {
	ei := st.E % len(x.s.Exprs)
	text = x.s.Exprs[ei].Text
	switch st.Op {
	case "select":
		return text, "select", st.N
	case "eval":
		return text, "eval", 0
	case "compile":
		if st.N == 0 {
			return text, "select", 0
		}
		if st.N == 2 {
			return text, "pkgselect", 0
		}
		return text, "eval", 0
	case "mustbad":
		return text + "[", "select", 0
	}
	return text, "eval", 0
}

func (x *exec) soloMust(text string, d, c int) Outcome {
	e := x.begin(SoloBudget, 0)
	defer x.end(e)
	o := mustSelect(text, x.nav(d, c))
	o.Steps = e.Steps
	return o
}

// pkgSelect goes through the deprecated package-level Select, which compiles
// and panics on a compile error.
func pkgSelect(text string, nav xpath.NodeNavigator) (o Outcome) {
	defer func() {
		if p := recover(); p != nil {
			k, v := classifyPanic(p)
			o = Outcome{Kind: k, V: v}
		}
	}()
	return drain(xpath.Select(nav, text), 0)
}

func mustSelect(text string, nav xpath.NodeNavigator) (o Outcome) {
	defer func() {
		if p := recover(); p != nil {
			k, v := classifyPanic(p)
			o = Outcome{Kind: k, V: v}
		}
	}()
	ex := xpath.MustCompile(text)
	return selectAll(ex, nav, 0)
}

type pendingOp struct {
	i      int
	st     scn.Step
	got    Outcome
	exempt bool
}

// judgeC05 compares one operation's outcome with its reference.
func (x *exec) judgeC05(task int32, i int, st scn.Step, got, want Outcome, exempt bool) *Violation {
	if want.Aborted() || exempt || got.Key() == want.Key() {
		return nil
	}
	text, _, _ := x.opText(st)
	kind := "divergence"
	if got.Aborted() {
		kind = "no-progress"
	} else if (got.Kind == "prt" || strings.HasPrefix(got.Tail, "prt:")) && want.Kind != "prt" && !strings.HasPrefix(want.Tail, "prt:") {
		kind = "stray-panic"
	}
	return &Violation{Prop: x.s.Prop, Kind: kind, Class: kind + ":" + st.Op,
		Detail: fmt.Sprintf("task %d op %d %s(%s) doc %d ctx %d: got %s, run alone gives %s", task, i, st.Op, text, st.D%len(x.docs), st.C, clip(got.Key()), clip(want.Key())), Step: i}
}

// taskOp runs one operation of a task program on the task's goroutine.
// taskFinalizers: queued finalizers of the package under test run on the
// goroutine of whichever task finishes an operation next (see the shim).
func (x *exec) taskFinalizers(t *task) {
	if vs.PendingFinalizers() == 0 {
		return
	}
	defer func() { recover() }() // a panicking finalizer (or a budget abort inside one) ends with it
	t.stats.Faults["finalizer-run"] += vs.RunFinalizers()
}

func (x *exec) taskOp(t *task, i int, st scn.Step) {
	s := x.sim
	if st.Op == "gc" {
		// the "gc" fault: a collection now; what it queues runs at the end of
		// the next operation that finishes
		t.env = &Env{Budget: MinBudget}
		s.onEvent(evOpBegin, 0, nil)
		if !raceEnabled || vs.FinalizersRegistered() > 0 {
			// (a collection costs ~100 ms under the race detector: there, only when the
			// package under test has finalizers for it to trigger)
			runtime.GC()
		}
		t.stats.Faults["gc"]++
		x.taskFinalizers(t)
		s.onEvent(evOpEnd, 0, nil)
		t.env = nil
		return
	}
	if x.s.Prop == "C16" {
		e := &Env{Budget: 5 * MinBudget}
		t.env = e
		s.onEvent(evOpBegin, scn.HashString(st.K)&0x7fffffffffffffff, nil)
		var r string
		switch st.Op {
		case "get":
			r = x.cache.opGet(i, e, st.K, st.Fail, st.Panic)
		case "noise":
			r = x.cache.opNoise(st)
		case "numpat":
			r = x.cache.opNumPat(st)
		case "pnode":
			r = x.cache.opPNode(i, st, t.id)
		default:
			r = x.cache.opRegex(i, st, t.id)
		}
		t.hash = mix(t.hash, e.hash, scn.HashString(r))
		t.stats.Steps += int64(e.Steps)
		t.stats.NavCalls += int64(e.NavCalls)
		t.stats.Ops++
		t.stats.OpsCompared++
		if s.trace {
			t.note = fmt.Sprintf("op %d %s %q -> %s", i, st.Op, st.K, clip(r))
		}
		x.taskFinalizers(t)
		s.onEvent(evOpEnd, 0, nil)
		t.env = nil
		return
	}
	// C05
	want := t.want[i]
	text, api, limit := x.opText(st)
	ei := st.E % len(x.s.Exprs)
	d := st.D % len(x.docs)
	e := &Env{Budget: budgetFor(want), CrashAt: st.Crash}
	t.env = e
	s.onEvent(evOpBegin, uint64(ei), nil)
	nav := world.NavFor(x.docs[d], st.C, t.id)
	var got Outcome
	noShared := false
	switch st.Op {
	case "select", "eval":
		ex := x.shared[ei]
		if ex == nil {
			got, noShared = want, true // the text did not compile: nothing to share, nothing to judge
			break
		}
		if api == "select" {
			got = selectAll(ex, nav, limit)
		} else {
			var it *xpath.NodeIterator
			got, it = evaluate(ex, nav)
			if it != nil {
				got = drain(it, 0)
			}
		}
	case "compile":
		if api == "pkgselect" {
			got = pkgSelect(text, nav)
			break
		}
		ex, co := compile(text)
		if ex == nil {
			got = co
			break
		}
		if api == "select" {
			got = selectAll(ex, nav, 0)
		} else {
			var it *xpath.NodeIterator
			got, it = evaluate(ex, nav)
			if it != nil {
				got = drain(it, 0)
			}
		}
	case "mustbad":
		got = mustSelect(text, nav)
	}
	t.hash = mix(t.hash, e.hash, scn.HashString(got.Key()))
	t.stats.Steps += int64(e.Steps)
	t.stats.NavCalls += int64(e.NavCalls)
	t.stats.Ops++
	if e.Crashed {
		t.stats.Faults["nav-panic"]++
	}
	if x.s.Cfg.ColdProcess {
		// cold run: the reference is computed after the concurrent phase (judgeCold)
		t.pending = append(t.pending, pendingOp{i: i, st: st, got: got, exempt: noShared || (e.Crashed || e.CutOff) && got.Aborted()})
	} else if v := x.judgeC05(t.id, i, st, got, want, (e.Crashed || e.CutOff) && got.Aborted()); v != nil {
		t.viol = append(t.viol, *v)
	} else if !want.Aborted() {
		t.stats.OpsCompared++
	}
	if s.trace {
		t.note = fmt.Sprintf("op %d %s e%d -> %s", i, st.Op, ei, clip(got.Key()))
	}
	x.taskFinalizers(t)
	s.onEvent(evOpEnd, 0, nil)
	t.env = nil
}
