package run

import (
	"sort"
	"strings"

	"github.com/antchfx/xpath"
	"verifsim/scn"
	"verifsimw/world"
)

// A small executable reference model of the flat fragment of C12 - "a path
// made only of child, attribute and self steps from one context node, and a
// single predicate-free descendant step" - written directly from the XPath 1.0
// data model over world.Doc, sharing nothing with the engine: a location path
// denotes a node SET (each step: the union, over the input nodes, of the nodes
// on the axis that pass the node test), and C12 adds that the engine reports
// that set in document order without repeats. So "its nodes" is the model's
// set listed by ascending node id.
//
// The model answers only where the statement and the XPath recommendation
// leave no room: steps without predicates, with the purely positional first
// predicate of a child step that C03 allows ([n], [last()], [last()-k],
// [position() op n]) and with boolean predicates of the C02 forms the fragment
// uses (path existence, not(path), path = / != literal, count(path) op number,
// contains / starts-with(path, literal), local-name() = literal),
// and name tests whose outcome does not depend on how prefixes are bound
// (an unprefixed test against unprefixed, namespace-less nodes; a test whose
// local name differs; a prefixed test where comparing prefixes and comparing
// bound namespaces give the same answer). Anything else makes it decline (ok=false): unjudged,
// never guessed.

type flatModel struct {
	d    *world.Doc
	bind map[string]string // prefix bindings given to CompileWithNS; nil: plain Compile
	ok   bool
	why  string
}

func (m *flatModel) decline(why string) {
	if m.ok {
		m.ok, m.why = false, why
	}
}

// nameMatch: three-valued; the third value declines the whole evaluation.
func (m *flatModel) nameMatch(test string, n *world.Node) bool {
	p, l := "", test
	if i := strings.IndexByte(test, ':'); i >= 0 {
		p, l = test[:i], test[i+1:]
	}
	if l != "*" && n.Local != l {
		return false
	}
	if p == "" {
		if n.Prefix != "" {
			return false // an unprefixed test never names a node of a prefixed (non-null) namespace
		}
		if n.NS != "" {
			m.decline("default-namespace node against an unprefixed test")
			return false
		}
		return true
	}
	// A prefixed test. The recommendation reads it as (namespace bound to the
	// prefix, local name); the package, for expressions compiled without
	// bindings or navigators that cannot report a namespace, compares prefixes.
	// The model answers only where both readings agree.
	byPrefix := n.Prefix == p
	if m.bind == nil {
		return byPrefix // plain Compile: the prefix is all there is
	}
	uri, bound := m.bind[p]
	if !bound {
		m.decline("unbound prefix")
		return false
	}
	byURI := n.NS == uri
	if byPrefix != byURI {
		m.decline("prefix and namespace readings differ")
		return false
	}
	return byPrefix
}

// test: does node n, reached over an axis whose principal node type is
// principal, pass the node test?
func (m *flatModel) test(t string, principal xpath.NodeType, n *world.Node) bool {
	switch t {
	case "node()":
		return true
	case "text()":
		return n.Kind == xpath.TextNode
	case "comment()":
		return n.Kind == xpath.CommentNode
	case "*":
		return n.Kind == principal
	}
	if strings.HasSuffix(t, "()") {
		m.decline("node test " + t)
		return false
	}
	if n.Kind != principal {
		return false
	}
	return m.nameMatch(t, n)
}

func descendants(n *world.Node, out []*world.Node) []*world.Node {
	for _, c := range n.Children {
		out = append(out, c)
		out = descendants(c, out)
	}
	return out
}

// axis lists the nodes on the axis from n, in document order.
func (m *flatModel) axis(ax string, n *world.Node) (nodes []*world.Node, principal xpath.NodeType) {
	principal = xpath.ElementNode
	switch ax {
	case "child":
		if n.Kind == xpath.ElementNode || n.Kind == xpath.RootNode {
			nodes = n.Children
		}
	case "attribute":
		principal = xpath.AttributeNode
		if n.Kind == xpath.ElementNode {
			nodes = n.Attrs
		}
	case "self":
		nodes = []*world.Node{n}
	case "descendant":
		if n.Kind == xpath.ElementNode || n.Kind == xpath.RootNode {
			nodes = descendants(n, nil)
		}
	case "descendant-or-self":
		nodes = []*world.Node{n}
		if n.Kind == xpath.ElementNode || n.Kind == xpath.RootNode {
			nodes = descendants(n, nodes)
		}
	default:
		m.decline("axis " + ax)
	}
	return
}

// posPred interprets the purely positional predicates of the fragment (C03):
// keep(pos, last) for 1-based pos; nil when p is not of these forms.
func posPred(p *scn.E) func(pos, last int) bool {
	isFn := func(e *scn.E, name string) bool { return e.Op == "fn" && e.S == name && len(e.Kids) == 0 }
	whole := func(e *scn.E) (int, bool) {
		if e.Op == "num" && e.F == float64(int(e.F)) && e.F >= 0 && e.F < 1000 {
			return int(e.F), true
		}
		return 0, false
	}
	switch {
	case p.Op == "num":
		if n, ok := whole(p); ok {
			return func(pos, last int) bool { return pos == n }
		}
	case isFn(p, "last"):
		return func(pos, last int) bool { return pos == last }
	case p.Op == "bin" && len(p.Kids) == 2:
		if p.S == "-" && isFn(p.Kids[0], "last") {
			if k, ok := whole(p.Kids[1]); ok {
				return func(pos, last int) bool { return pos == last-k }
			}
		}
		if isFn(p.Kids[0], "position") {
			if n, ok := whole(p.Kids[1]); ok {
				switch p.S {
				case "=":
					return func(pos, last int) bool { return pos == n }
				case "!=":
					return func(pos, last int) bool { return pos != n }
				case "<":
					return func(pos, last int) bool { return pos < n }
				case "<=":
					return func(pos, last int) bool { return pos <= n }
				case ">":
					return func(pos, last int) bool { return pos > n }
				case ">=":
					return func(pos, last int) bool { return pos >= n }
				}
			}
		}
	}
	return nil
}

// literal: the string an expression tree's "str" node denotes in the written
// text (scn.quote drops double quotes from a literal that has both kinds).
func literal(e *scn.E) string {
	if strings.Contains(e.S, "'") {
		return strings.ReplaceAll(e.S, "\"", "")
	}
	return e.S
}

// relPath: the nodes a predicate-free relative flat path selects from n.
func (m *flatModel) relPath(e *scn.E, n *world.Node) []*world.Node {
	if e.Op != "path" || e.S != "" {
		m.decline("operand is not a relative path")
		return nil
	}
	cur := []*world.Node{n}
	for i, s := range e.Kids {
		if s.Op != "step" || len(s.Kids) > 0 {
			m.decline("operand path with predicates")
			return nil
		}
		if i > 0 && s.Sep == "//" {
			cur = m.step(cur, "descendant-or-self", "node()", nil)
		}
		cur = m.step(cur, s.S, s.T, nil)
		if !m.ok {
			return nil
		}
	}
	return cur
}

// boolPred: the XPath 1.0 boolean value of predicate p with n as context node,
// for the boolean predicate forms of C02 that the flat fragment uses.
func (m *flatModel) boolPred(p *scn.E, n *world.Node) bool {
	switch {
	case p.Op == "path":
		return len(m.relPath(p, n)) > 0
	case p.Op == "fn" && p.S == "not" && len(p.Kids) == 1 && p.Kids[0].Op == "path":
		return len(m.relPath(p.Kids[0], n)) == 0
	case p.Op == "fn" && (p.S == "contains" || p.S == "starts-with") && len(p.Kids) == 2 && p.Kids[0].Op == "path" && p.Kids[1].Op == "str":
		// string(node-set): the string-value of its first node in document order, or ""
		ns := m.relPath(p.Kids[0], n)
		v := ""
		if len(ns) > 0 {
			v = ns[0].StringValue()
		} else if literal(p.Kids[1]) == "" {
			// contains(empty node-set, ''): true by the recommendation ("" contains
			// ""), false in this package, whose string functions answer false for an
			// empty node-set argument on purpose (func.go: containsFunc). What a
			// function makes of an empty node-set is not C12's subject: unjudged.
			m.decline("string function of an empty node-set and an empty literal")
			return false
		}
		if p.S == "contains" {
			return strings.Contains(v, literal(p.Kids[1]))
		}
		return strings.HasPrefix(v, literal(p.Kids[1]))
	case p.Op == "bin" && len(p.Kids) == 2 && (p.S == "=" || p.S == "!=") && p.Kids[0].Op == "path" && p.Kids[1].Op == "str":
		// node-set against string: true iff SOME node's string-value compares true
		lit := literal(p.Kids[1])
		for _, x := range m.relPath(p.Kids[0], n) {
			if (x.StringValue() == lit) == (p.S == "=") {
				return true
			}
		}
		return false
	case p.Op == "bin" && len(p.Kids) == 2 && p.Kids[0].Op == "fn" && p.Kids[0].S == "count" && len(p.Kids[0].Kids) == 1 && p.Kids[0].Kids[0].Op == "path" && p.Kids[1].Op == "num":
		c := float64(len(m.relPath(p.Kids[0].Kids[0], n)))
		switch p.S {
		case "<":
			return c < p.Kids[1].F
		case "<=":
			return c <= p.Kids[1].F
		case ">":
			return c > p.Kids[1].F
		case ">=":
			return c >= p.Kids[1].F
		case "=":
			return c == p.Kids[1].F
		case "!=":
			return c != p.Kids[1].F
		}
	case p.Op == "bin" && p.S == "=" && len(p.Kids) == 2 && p.Kids[0].Op == "fn" && p.Kids[0].S == "local-name" && len(p.Kids[0].Kids) == 0 && p.Kids[1].Op == "str":
		if n.Kind != xpath.ElementNode && n.Kind != xpath.AttributeNode {
			// "" by the recommendation; navigators differ in what they report as the
			// name of a text or comment node
			m.decline("local-name() of a node without a name")
			return false
		}
		return n.Local == literal(p.Kids[1])
	}
	m.decline("predicate outside the modelled forms")
	return false
}

func (m *flatModel) step(in []*world.Node, ax, t string, preds []*scn.E) []*world.Node {
	var keep func(pos, last int) bool
	if len(preds) > 0 && ax == "child" {
		if keep = posPred(preds[0]); keep != nil {
			preds = preds[1:]
		}
	}
	for _, p := range preds {
		if posPred(p) != nil {
			m.decline("positional predicate outside the first place of a child step")
		}
	}
	if !m.ok {
		return nil
	}
	seen := map[int]bool{}
	var out []*world.Node
	for _, n := range in {
		cand, principal := m.axis(ax, n)
		var pass []*world.Node
		for _, c := range cand {
			if m.test(t, principal, c) {
				pass = append(pass, c)
			}
		}
	candidates:
		for i, c := range pass {
			if keep != nil && !keep(i+1, len(pass)) {
				continue
			}
			for _, p := range preds {
				if !m.boolPred(p, c) || !m.ok {
					continue candidates
				}
			}
			if !seen[c.ID] {
				seen[c.ID] = true
				out = append(out, c)
			}
		}
		if !m.ok {
			return nil
		}
	}
	sort.Slice(out, func(i, j int) bool { return out[i].ID < out[j].ID })
	return out
}

// flatDenotation returns the ids of the nodes the flat path e denotes from
// context node ctx of d, in document order; ok=false when the model declines.
func flatDenotation(e *scn.E, d *world.Doc, ctx int, bind map[string]string) (ids []int, ok bool, why string) {
	m := &flatModel{d: d, ok: true, bind: bind}
	if e == nil || e.Op != "path" {
		return nil, false, "not a path"
	}
	cur := []*world.Node{d.Nodes[ctx%len(d.Nodes)]}
	switch e.S {
	case "":
	case "/":
		cur = []*world.Node{d.Root}
	case "//":
		cur = m.step([]*world.Node{d.Root}, "descendant-or-self", "node()", nil)
	default:
		return nil, false, "lead " + e.S
	}
	for i, s := range e.Kids {
		if s.Op != "step" {
			return nil, false, "primary expression in path"
		}
		if i > 0 && s.Sep == "//" {
			cur = m.step(cur, "descendant-or-self", "node()", nil)
		}
		cur = m.step(cur, s.S, s.T, s.Kids)
		if !m.ok {
			return nil, false, m.why
		}
	}
	if !m.ok {
		return nil, false, m.why
	}
	ids = make([]int, len(cur))
	for i, n := range cur {
		ids[i] = n.ID
	}
	return ids, true, ""
}
