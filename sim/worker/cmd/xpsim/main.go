// xpsim is the simulation worker. It links the instrumented scratch copy of
// the package under test, generates scenarios from (seed, property, run
// index), executes them, checks the oracles, minimises what fails and writes
// replay files. It is started by xpcheck, one OS process per batch.
package main

import (
	"encoding/binary"
	"encoding/json"
	"flag"
	"fmt"
	"os"
	"os/exec"
	"path/filepath"
	"strconv"
	"strings"
	"sync"
	"sync/atomic"
	"time"

	"verifsim/scn"
	"verifsimw/run"
)

// Report is what one worker process hands back to the driver.
type Report struct {
	Prop      string          `json:"prop"`
	Part      string          `json:"part"`
	Race      bool            `json:"race"`
	Seed      uint64          `json:"seed"`
	From      uint64          `json:"from"`
	To        uint64          `json:"to"`
	Next      uint64          `json:"next"` // first run index not executed
	Stats     *run.Stats      `json:"stats"`
	Nontriv   int             `json:"nontrivial_runs"`
	Found     []Found         `json:"found,omitempty"`
	Samples   []*scn.Scenario `json:"samples,omitempty"`
	Harness   string          `json:"harness_race,omitempty"`
	WallS     float64         `json:"wall_s"`
	LogHashes []string        `json:"log_hashes,omitempty"`
}

// Found is one violation with its replay scenarios.
type Found struct {
	Viol        run.Violation   `json:"violation"`
	All         []run.Violation `json:"all_violations"`
	Original    *scn.Scenario   `json:"original"`
	Minimised   *scn.Scenario   `json:"minimised"`
	ShrinkExecs int             `json:"shrink_execs"`
	Confirmed   bool            `json:"confirmed_in_process"`
	Trace       []string        `json:"trace,omitempty"`
}

func gen(prop, part string, seed, i uint64, ok scn.CompileOK) *scn.Scenario {
	switch prop {
	case "C04":
		return scn.GenC04(seed, i, ok)
	case "C12":
		return scn.GenC12(seed, i, ok)
	case "C05":
		return scn.GenC05(seed, i, ok)
	case "C16":
		if part == "G" {
			return scn.GenC16G(seed, i)
		}
		return scn.GenC16H(seed, i)
	}
	fmt.Fprintln(os.Stderr, "xpsim: unknown property", prop)
	os.Exit(2)
	return nil
}

func main() {
	prop := flag.String("prop", "", "property id")
	part := flag.String("part", "", "H or G (C16 only)")
	seed := flag.Uint64("seed", 1, "VERIF_SEED")
	from := flag.Uint64("from", 0, "first run index")
	to := flag.Uint64("to", 0, "one past the last run index")
	out := flag.String("out", "", "report file (JSON)")
	replay := flag.String("replay", "", "replay file to execute instead of generating")
	trace := flag.Bool("trace", false, "print the event trace of a replay")
	soloFile := flag.String("solo", "", "compute one reference outcome described by this file and print its key (child-process mode)")
	jsonOut := flag.Bool("json", false, "replay: print the result as JSON (used for child-process execution)")
	racelog := flag.String("racelog", "", "prefix of the race detector's log_path (race build)")
	hashes := flag.Bool("hashes", false, "record the event-log hash of every run (determinism self-test)")
	noShrink := flag.Bool("no-shrink", false, "do not minimise")
	budget := flag.Duration("budget", 0, "stop generating after this wall time")
	shrinkTime := flag.Duration("shrink-time", 25*time.Second, "wall-time budget for minimising one violation")
	flag.Parse()

	run.Install()
	if *soloFile != "" {
		os.Exit(doSolo(*soloFile))
	}
	opt := run.Options{RaceLog: run.OpenRaceLog(*racelog)}
	opt.Pristine = func(s *scn.Scenario, it run.SoloItem) (string, bool) { return childSolo(s, it) }
	start := time.Now()

	if *replay != "" {
		os.Exit(doReplay(*replay, opt, *trace, *jsonOut))
	}

	ok := func(text string) bool { return run.CompileOK(text) }
	rep := &Report{Prop: *prop, Part: *part, Race: run.RaceBuild, Seed: *seed, From: *from, To: *to, Next: *to, Stats: run.NewStats()}
	var nt []uint64
	// a run that blocks the main goroutine for ever inside the package is a
	// verdict (deadlock), not a crash: the watchdog files it and ends the process
	var curScn atomic.Pointer[scn.Scenario]
	var curIdx atomic.Uint64
	var repMu sync.Mutex
	run.HangWatch(func(detail string) {
		repMu.Lock()
		s := curScn.Load()
		if s == nil {
			fmt.Fprintln(os.Stderr, "xpsim: the main goroutine is blocked before any scenario was started:", detail)
			os.Exit(2)
		}
		v := run.Violation{Prop: *prop, Kind: "deadlock", Class: "deadlock:blocked-for-ever", Detail: detail, Step: -1}
		if strings.Contains(detail, "30 s of real time") {
			v.Kind, v.Class = "no-progress", "no-progress:spinning"
		}
		rep.Found = append(rep.Found, Found{Viol: v, All: []run.Violation{v}, Original: s, Minimised: s})
		rep.Next = curIdx.Load() + 1
		rep.WallS = time.Since(start).Seconds()
		b, _ := json.Marshal(rep)
		if *out == "" {
			fmt.Println(string(b))
		} else {
			os.WriteFile(*out, b, 0o644)
		}
		os.Exit(0)
	})
	for i := *from; i < *to; i++ {
		if *budget > 0 && time.Since(start) > *budget {
			rep.Next = i
			break
		}
		s := gen(*prop, *part, *seed, i, ok)
		repMu.Lock()
		curScn.Store(s)
		curIdx.Store(i)
		repMu.Unlock()
		var r *run.Result
		if s.Cfg.ColdProcess && s.Mode == "G" {
			// executed in a pristine child process: the tasks meet a package in
			// which nothing has been evaluated yet
			r = childExec(s, *racelog, false)
			if r == nil {
				continue
			}
			r.Stats.Runs = 1
			r.Stats.Probes["cold_process_runs"]++
			r.Nontrivial = false
		} else {
			r = run.Execute(s, opt)
		}
		rep.Stats.Add(r.Stats)
		if *hashes {
			rep.LogHashes = append(rep.LogHashes, fmt.Sprintf("%d:%016x:%016x", i, r.LogHash, r.SchedHash))
		}
		if r.Nontrivial {
			rep.Nontriv++
			nt = append(nt, s.Hash()^r.SchedHash)
		}
		if len(rep.Samples) < 3 && r.Nontrivial && len(r.Viol) == 0 {
			c := s.Clone()
			c.Sched = r.Sched
			for k := range c.Exprs {
				c.Exprs[k].AST = nil
			}
			rep.Samples = append(rep.Samples, c)
		}
		if run.HarnessRace != "" {
			rep.Harness = run.HarnessRace
			rep.Next = i + 1
			break
		}
		if len(r.Viol) > 0 {
			curScn.Store(nil) // from here on a hang is trouble of the minimiser, not a verdict
			f := Found{Viol: r.Viol[0], All: r.Viol, Original: s.Clone()}
			f.Original.Sched = r.Sched
			fresh := func(c *scn.Scenario) *run.Result { return childExec(c, *racelog, false) }
			// Does the violation reproduce from a pristine process? If not, the code
			// under test keeps state the simulator does not reset between runs: the
			// earlier runs of this process are part of the history.
			if fr := fresh(f.Original); fr != nil && !run.HasClass(fr, f.Viol.Class) {
				withHist := f.Original.Clone()
				for j := *from; j < i; j++ {
					b := gen(*prop, *part, *seed, j, ok)
					for k := range b.Exprs {
						b.Exprs[k].AST = nil
					}
					withHist.Before = append(withHist.Before, b)
				}
				if fr2 := fresh(withHist); fr2 != nil && run.HasClass(fr2, f.Viol.Class) {
					f.Original = withHist
				}
			}
			// a run that left task goroutines behind (deadlock verdict) has poisoned
			// this process: everything from here on is judged in child processes
			poisoned := r.Poisoned || (s.Cfg.ColdProcess && s.Mode == "G")
			min := f.Original
			if !*noShrink {
				var n int
				min, n = run.Shrink(f.Original, f.Viol.Class, opt, 6000, *shrinkTime, fresh, poisoned)
				f.ShrinkExecs = n
			}
			// confirm the minimised scenario once more, with a trace
			o2 := opt
			o2.Trace = true
			var r2 *run.Result
			if len(f.Original.Before) > 0 || poisoned || run.ProcessPoisoned() {
				r2 = childExec(min, *racelog, true)
			} else {
				r2 = run.Execute(min, o2)
			}
			if r2 != nil && run.HasClass(r2, f.Viol.Class) {
				f.Confirmed = true
				f.Minimised = min
				f.Trace = r2.Trace
				for _, v := range r2.Viol {
					if v.Class == f.Viol.Class {
						f.Viol = v
					}
				}
				f.All = r2.Viol
			} else {
				f.Minimised = f.Original
			}
			rep.Found = append(rep.Found, f)
			rep.Next = i + 1
			// a violation may leave global state (locks, parked goroutines) wedged:
			// this process ends here, the driver starts another for the rest
			break
		}
	}
	rep.WallS = time.Since(start).Seconds()
	if *out == "" {
		b, _ := json.MarshalIndent(rep, "", " ")
		fmt.Println(string(b))
		return
	}
	b, _ := json.Marshal(rep)
	if err := os.WriteFile(*out, b, 0o644); err != nil {
		fmt.Fprintln(os.Stderr, "xpsim:", err)
		os.Exit(2)
	}
	hb := make([]byte, 8*len(nt))
	for i, h := range nt {
		binary.LittleEndian.PutUint64(hb[8*i:], h)
	}
	_ = os.WriteFile(*out+".nt", hb, 0o644)
}

type soloReq struct {
	Scenario *scn.Scenario `json:"scenario"`
	Item     run.SoloItem  `json:"item"`
}

func doSolo(path string) int {
	b, err := os.ReadFile(path)
	if err != nil {
		return 2
	}
	var rq soloReq
	if json.Unmarshal(b, &rq) != nil || rq.Scenario == nil {
		return 2
	}
	fmt.Print(run.SoloInPristineProcess(rq.Scenario, rq.Item))
	return 0
}

// childSolo computes one reference outcome in a pristine child process of this
// binary (plain execution: no race log, the outcome is all that matters).
func childSolo(s *scn.Scenario, it run.SoloItem) (string, bool) {
	tmp, err := os.CreateTemp(filepath.Dir(os.Args[0]), "solo-*.json")
	if err != nil {
		return "", false
	}
	defer os.Remove(tmp.Name())
	c := *s
	c.Before, c.Steps, c.Tasks, c.Sched = nil, nil, nil, nil
	b, _ := json.Marshal(&soloReq{Scenario: &c, Item: it})
	tmp.Write(b)
	tmp.Close()
	cmd := exec.Command(os.Args[0], "-solo", tmp.Name())
	var env []string
	for _, e := range os.Environ() {
		if !strings.HasPrefix(e, "GORACE=") {
			env = append(env, e)
		}
	}
	cmd.Env = append(env, "GORACE=halt_on_error=0 exitcode=0 atexit_sleep_ms=0 log_path="+filepath.Join(filepath.Dir(os.Args[0]), "out", "solorace"))
	out, err := cmd.Output()
	if err != nil {
		return "", false
	}
	return string(out), true
}

// childExec executes a scenario in a pristine child process of this same
// binary and returns what it reported (nil on trouble).
func childExec(c *scn.Scenario, racelog string, trace bool) *run.Result {
	tmp, err := os.CreateTemp(filepath.Dir(os.Args[0]), "child-*.json")
	if err != nil {
		return nil
	}
	defer os.Remove(tmp.Name())
	rf := ReplayFile{Property: c.Prop, Scenario: c}
	b, _ := json.Marshal(&rf)
	tmp.Write(b)
	tmp.Close()
	args := []string{"-replay", tmp.Name(), "-json"}
	if trace {
		args = append(args, "-trace")
	}
	cmd := exec.Command(os.Args[0], args...)
	cmd.Env = os.Environ()
	if racelog != "" {
		prefix := racelog + ".child"
		args = append(args, "-racelog", prefix)
		cmd = exec.Command(os.Args[0], args...)
		var env []string
		for _, e := range os.Environ() {
			if strings.HasPrefix(e, "GORACE=") {
				var opts []string
				for _, o := range strings.Fields(strings.TrimPrefix(e, "GORACE=")) {
					if !strings.HasPrefix(o, "log_path=") {
						opts = append(opts, o)
					}
				}
				e = "GORACE=" + strings.Join(append(opts, "log_path="+prefix), " ")
			}
			env = append(env, e)
		}
		cmd.Env = env
	}
	out, err := cmd.Output()
	if err != nil {
		if _, ok := err.(*exec.ExitError); !ok {
			return nil
		}
	}
	var jr struct {
		Viol  []run.Violation
		Sched []int
		Trace []string
	}
	if json.Unmarshal(out, &jr) != nil {
		return nil
	}
	if racelog != "" {
		matches, _ := filepath.Glob(racelog + ".child.*")
		for _, m := range matches {
			os.Remove(m)
		}
	}
	return &run.Result{Viol: jr.Viol, Sched: jr.Sched, Trace: jr.Trace, Stats: run.NewStats()}
}

// ReplayFile is the on-disk replay format written by xpcheck.
type ReplayFile struct {
	Property  string          `json:"property"`
	Kind      string          `json:"kind"`
	Class     string          `json:"class"`
	Detail    string          `json:"detail"`
	Race      bool            `json:"race_build"`
	Seed      uint64          `json:"seed"`
	Run       uint64          `json:"run"`
	Minimised bool            `json:"minimised"`
	Scenario  *scn.Scenario   `json:"scenario"`
	Original  *scn.Scenario   `json:"original,omitempty"`
	Trace     []string        `json:"trace,omitempty"`
	All       []run.Violation `json:"all_violations,omitempty"`
}

func doReplay(path string, opt run.Options, trace, jsonOut bool) int {
	run.HangWatch(func(detail string) {
		v := run.Violation{Kind: "deadlock", Class: "deadlock:blocked-for-ever", Detail: detail, Step: -1}
		if strings.Contains(detail, "30 s of real time") {
			v.Kind, v.Class = "no-progress", "no-progress:spinning"
		}
		if jsonOut {
			b, _ := json.Marshal(struct {
				Viol  []run.Violation
				Sched []int
				Trace []string
			}{[]run.Violation{v}, nil, nil})
			os.Stdout.Write(b)
		} else {
			fmt.Printf("violation kind=%s class=%s: %s\n", v.Kind, v.Class, v.Detail)
		}
		os.Exit(1)
	})
	b, err := os.ReadFile(path)
	if err != nil {
		fmt.Fprintln(os.Stderr, "xpsim:", err)
		return 2
	}
	var rf ReplayFile
	if err := json.Unmarshal(b, &rf); err != nil || rf.Scenario == nil {
		fmt.Fprintln(os.Stderr, "xpsim: bad replay file:", err)
		return 2
	}
	opt.Trace = trace
	if jsonOut {
		r := run.Execute(rf.Scenario, opt)
		if run.HarnessRace != "" {
			fmt.Fprintln(os.Stderr, "xpsim: race inside the harness:\n"+run.HarnessRace)
			return 2
		}
		b, _ := json.Marshal(struct {
			Viol  []run.Violation
			Sched []int
			Trace []string
		}{r.Viol, r.Sched, r.Trace})
		os.Stdout.Write(b)
		if len(r.Viol) > 0 {
			return 1
		}
		return 0
	}
	if n, _ := strconv.Atoi(os.Getenv("XPSIM_REPEAT")); n > 1 {
		// diagnostic: the same scenario several times in one process
		for i := 0; i < n; i++ {
			r := run.Execute(rf.Scenario, opt)
			fmt.Printf("repeat %d: loghash=%016x violations=%d\n", i, r.LogHash, len(r.Viol))
		}
	}
	r := run.Execute(rf.Scenario, opt)
	if trace {
		for _, l := range r.Trace {
			fmt.Println("  ", l)
		}
	}
	if run.HarnessRace != "" {
		fmt.Fprintln(os.Stderr, "xpsim: race inside the harness:\n"+run.HarnessRace)
		return 2
	}
	if r.Diverged {
		fmt.Println("note: the recorded schedule did not fit the current code at some scheduling point; the scheduler fell back to keeping the running task")
	}
	same := false
	for _, v := range r.Viol {
		fmt.Printf("violation kind=%s class=%s: %s\n", v.Kind, v.Class, v.Detail)
		if v.Class == rf.Class {
			same = true
		}
	}
	fmt.Printf("loghash=%016x schedhash=%016x violations=%d same_class=%v\n", r.LogHash, r.SchedHash, len(r.Viol), same)
	if len(r.Viol) > 0 {
		return 1
	}
	return 0
}
